import BppModel.Prelude.Scalar
/-!
# Model of `Bpp/Numeric/Matrix/Matrix.h` and of `Bpp/Numeric/Matrix/MatrixTools.h`

A transcription of the code that exists *after* the `fix:` commits listed in `findings/C04.json`
(the pre-repair text of four repaired routines is kept next to them with suffix `Orig`: the witness
theorems at the end of `Props/C04.lean` are about those).  Generic over `[Scalar α]`: run at `Float`
(bit-exact tie) and `Rat` by the driver, reasoned about at `ℝ` in `BppProofs`.  Core Lean only.

## Storage classes (`Matrix.h:92, 200, 318`)

`Store α` has one constructor per concrete class, holding exactly the data members:
`RowMatrix` = `vector<vector>` of rows, `ColMatrix` = `vector<vector>` of columns,
`LinearMatrix` = one flat vector with `rows_`, `cols_`.  `get`/`set` are the `operator()`
of each class on that representation; an index outside the underlying `std::vector` is the
explicit outcome `Err.ub` (never a default value).  Note that `LinearMatrix::operator()(i,j)`
with `j ≥ cols_` but `i*cols_+j < size` is *not* out of range for the vector: it silently
addresses another entry, and so does the model.  `resize` is the `resize` of each class
(`std::vector::resize` keeps the common prefix and value-initialises new elements; the flat class
copies the old entries to their new positions).  The reported dimensions are those of the
accessors: a row-stored matrix without rows reports 0 columns, a column-stored matrix without
columns reports 0 rows (`Kind.shape`).

## Loops

`loopM n f s` is `for (k = 0; k < n; k++) s = f(k, s)` with early exit on an error outcome.
`fillBlock O r0 c0 r c f` is the row-major double loop `O(r0+i, c0+j) = f(i,j)`; all element loops
of `MatrixTools.h` are instances, in source order.  Two deliberate simplifications, each leaving
every floating-point operation and its order unchanged:
* an accumulation `O(i,j) = 0; for k: O(i,j) += t_k` is computed in a local accumulator and stored
  once (`dot`), the C++ re-reads the entry it has just written;
* in-place updates (`scale`, `add`) read the operand's entry from the matrix as it was on entry:
  the entry `(i,j)` is written only by iteration `(i,j)` itself;
* routines with two outputs (`O`, `iO`) fill `O` completely, then `iO` (the C++ interleaves them;
  the values do not depend on each other).
Aliasing of an output with an operand is not modelled (the harness never aliases).
-/
namespace Bpp.Mx
open Bpp

/-- outcomes other than a normal return -/
inductive Err where
  /-- undefined behaviour in the C++: element access outside a `std::vector` -/
  | ub
  /-- `DimensionException` -/
  | dimension
  /-- `bpp::Exception` (`lap` on a non-square matrix) -/
  | bpp
  /-- a `do … while` loop of the model ran out of fuel (never observed; see `Lap.lean`) -/
  | fuel
  /-- the C++ computes with `±inf` here (outside the number domain of the model) -/
  | inf
  deriving DecidableEq, Repr, Inhabited

abbrev Res (β : Type) := Except Err β

/-- the three storage classes -/
inductive Kind where
  | row | col | lin
  deriving DecidableEq, Repr, Inhabited

/-- dimensions reported after `resize(r, c)` by each class (`Matrix.h:148-150, 256-258, 380-382`) -/
def Kind.shape : Kind → Nat → Nat → Nat × Nat
  | .row, r, c => (r, if r = 0 then 0 else c)
  | .col, r, c => (if c = 0 then 0 else r, c)
  | .lin, r, c => (r, c)

/-- `std::vector::resize(n)`: keeps the common prefix, new elements are `d` -/
def vresize {β : Type} (a : Array β) (n : Nat) (d : β) : Array β :=
  Array.ofFn (n := n) fun i => a.getD i.val d

/-- a checked `v[i]` on a `std::vector` -/
def vget {β : Type} (v : Array β) (i : Nat) : Res β :=
  match v[i]? with
  | some x => .ok x
  | none => .error .ub

/-- the data members of the three classes -/
inductive Store (α : Type) where
  /-- `RowMatrix::m_` (`Matrix.h:96`): the rows -/
  | row (m : Array (Array α))
  /-- `ColMatrix::m_` (`Matrix.h:204`): the columns -/
  | col (m : Array (Array α))
  /-- `LinearMatrix::m_, rows_, cols_` (`Matrix.h:322-324`) -/
  | lin (m : Array α) (rows cols : Nat)
  deriving Repr

namespace Store
variable {α : Type}

def kind : Store α → Kind
  | row _ => .row
  | col _ => .col
  | lin _ _ _ => .lin

/-- default constructors (`Matrix.h:99, 207, 330`) -/
def empty : Kind → Store α
  | .row => row #[]
  | .col => col #[]
  | .lin => lin #[] 0 0

/-- `getNumberOfRows` (`Matrix.h:148, 258, 380`) -/
def nrows : Store α → Nat
  | row m => m.size
  | col m => match m[0]? with
    | some c => c.size
    | none => 0
  | lin _ r _ => r

/-- `getNumberOfColumns` (`Matrix.h:150, 256, 382`) -/
def ncols : Store α → Nat
  | row m => match m[0]? with
    | some r => r.size
    | none => 0
  | col m => m.size
  | lin _ _ c => c

/-- `operator()(i, j) const` (`Matrix.h:144, 252, 376`) -/
def get (S : Store α) (i j : Nat) : Res α :=
  match S with
  | row m => match m[i]? with
    | some r => vget r j
    | none => .error .ub
  | col m => match m[j]? with
    | some c => vget c i
    | none => .error .ub
  | lin m _ cols => vget m (i * cols + j)

/-- `operator()(i, j) = x` (`Matrix.h:146, 254, 378`) -/
def set (S : Store α) (i j : Nat) (x : α) : Res (Store α) :=
  match S with
  | row m =>
    if h : i < m.size then
      if j < m[i].size then .ok (row (m.set i (m[i].set! j x))) else .error .ub
    else .error .ub
  | col m =>
    if h : j < m.size then
      if i < m[j].size then .ok (col (m.set j (m[j].set! i x))) else .error .ub
    else .error .ub
  | lin m r c =>
    if i * c + j < m.size then .ok (lin (m.set! (i * c + j) x) r c) else .error .ub

/-- the class invariant: all inner vectors have one length / the flat vector has `rows_*cols_`
elements.  Established by every constructor and `resize`, preserved by `set`. -/
def WF : Store α → Prop
  | row m => ∀ i (h : i < m.size), m[i].size = (row m).ncols
  | col m => ∀ j (h : j < m.size), m[j].size = (col m).nrows
  | lin m r c => m.size = r * c

/-- the entry `(i,j)`, for use in specifications with `i < nrows`, `j < ncols` (where `get`
returns it: `get_eq_entry`) -/
def entry [Inhabited α] (S : Store α) (i j : Nat) : α :=
  match S.get i j with
  | .ok x => x
  | .error _ => default

section
variable [Scalar α]

/-- `resize(nRows, nCols)` (`Matrix.h:176-183, 284-291, 410-481` with `keepValues = true`) -/
def resize (S : Store α) (r c : Nat) : Store α :=
  match S with
  | row m => row ((vresize m r #[]).map fun x => vresize x c Scalar.zero)
  | col m => col ((vresize m c #[]).map fun x => vresize x r Scalar.zero)
  | lin m rows cols =>
    lin (Array.ofFn (n := r * c) fun idx =>
      if idx.val / c < rows ∧ idx.val % c < cols then m.getD ((idx.val / c) * cols + idx.val % c) Scalar.zero
      else Scalar.zero) r c

/-- a matrix of class `k` with `r × c` entries `f i j` (constructor `K(r, c)` followed by
assignments to every entry; what the harness does to build an operand) -/
def ofFn (k : Kind) (r c : Nat) (f : Nat → Nat → α) : Store α :=
  match k with
  | .row => row (Array.ofFn (n := r) fun i => Array.ofFn (n := c) fun j => f i.val j.val)
  | .col => col (Array.ofFn (n := c) fun j => Array.ofFn (n := r) fun i => f i.val j.val)
  | .lin => lin (Array.ofFn (n := r * c) fun idx => f (idx.val / c) (idx.val % c)) r c
end

end Store

/-! ## loops -/

/-- `for (k = 0; k < n; k++) s = f(k, s)`, stopping at the first error outcome -/
def loopM {σ : Type} : Nat → (Nat → σ → Res σ) → σ → Res σ
  | 0, _, s => .ok s
  | n + 1, f, s =>
    match loopM n f s with
    | .ok t => f n t
    | .error e => .error e

section Routines
variable {α : Type} [Scalar α]
open Scalar

/-- `for i < r: for j < c: O(r0+i, c0+j) = f(i,j)` -/
def fillBlock (O : Store α) (r0 c0 r c : Nat) (f : Nat → Nat → Res α) : Res (Store α) :=
  loopM r (fun i O => loopM c (fun j O =>
    match f i j with
    | .ok x => O.set (r0 + i) (c0 + j) x
    | .error e => .error e) O) O

def fill (O : Store α) (r c : Nat) (f : Nat → Nat → Res α) : Res (Store α) := fillBlock O 0 0 r c f

/-- `acc = 0; for (k = 0; k < n; k++) acc += f(k)` -/
def dot (n : Nat) (f : Nat → Res α) : Res α :=
  loopM n (fun k acc =>
    match f k with
    | .ok x => .ok (acc + x)
    | .error e => .error e) zero

/-- `out.resize(n); for i < n: out[i] = f(i)` -/
def collect {β : Type} (n : Nat) (f : Nat → Res β) : Res (Array β) :=
  loopM n (fun i acc =>
    match f i with
    | .ok x => .ok (acc.push x)
    | .error e => .error e) #[]

/-- `copy` (`MatrixTools.h:36-46`) -/
def copy (A O : Store α) : Res (Store α) :=
  fill (O.resize A.nrows A.ncols) A.nrows A.ncols fun i j => A.get i j

/-- `copyUp` (`MatrixTools.h:55-72`): `O(i,j) = A(i+1,j)`, last row `0` -/
def copyUp (A O : Store α) : Res (Store α) :=
  let nr := A.nrows; let nc := A.ncols
  let O0 := O.resize nr nc
  if nr = 0 then .ok O0 else
  match fillBlock O0 0 0 (nr - 1) nc (fun i j => A.get (i + 1) j) with
  | .ok O1 => fillBlock O1 (nr - 1) 0 1 nc fun _ _ => .ok zero
  | .error e => .error e

/-- `copyDown` (`MatrixTools.h:81-98`): `O(i,j) = A(i-1,j)`, first row `0` -/
def copyDown (A O : Store α) : Res (Store α) :=
  let nr := A.nrows; let nc := A.ncols
  let O0 := O.resize nr nc
  if nr = 0 then .ok O0 else
  match fillBlock O0 1 0 (nr - 1) nc (fun i j => A.get i j) with
  | .ok O1 => fillBlock O1 0 0 1 nc fun _ _ => .ok zero
  | .error e => .error e

/-- `getId` (`MatrixTools.h:107-117`) -/
def getId (n : Nat) (O : Store α) : Res (Store α) :=
  fill (O.resize n n) n n fun i j => .ok (if i = j then one else zero)

/-- `diag(vector, O)` (`MatrixTools.h:124-132`) -/
def diagV (D : Array α) (O : Store α) : Res (Store α) :=
  fill (O.resize D.size D.size) D.size D.size fun i j => if i = j then vget D i else .ok zero

/-- `diag(x, n, O)` (`MatrixTools.h:140-147`) -/
def diagS (x : α) (n : Nat) (O : Store α) : Res (Store α) :=
  fill (O.resize n n) n n fun i j => .ok (if i = j then x else zero)

/-- `diag(M, vector)` (`MatrixTools.h:155-162`) -/
def diagM (M : Store α) : Res (Array α) :=
  if M.ncols ≠ M.nrows then .error .dimension else collect M.ncols fun i => M.get i i

/-- `fill` (`MatrixTools.h:170-179`) -/
def fillAll (M : Store α) (x : α) : Res (Store α) :=
  fill M M.nrows M.ncols fun _ _ => .ok x

/-- `fillDiag` before the repair: `for i < nrows: M(i,i) = x`, beyond the last column when there
are more rows than columns -/
def fillDiagOrig (M : Store α) (x : α) : Res (Store α) :=
  loopM M.nrows (fun i M => M.set i i x) M

/-- `fillDiag` (`MatrixTools.h:187-193`) -/
def fillDiag (M : Store α) (x : α) : Res (Store α) :=
  loopM (Nat.min M.nrows M.ncols) (fun i M => M.set i i x) M

/-- `scale` (`MatrixTools.h:205-217`): nothing is done for `a == 1 && b == 0` -/
def scale (A : Store α) (a b : α) : Res (Store α) :=
  if eqb a one && eqb b zero then .ok A else
  fill A A.nrows A.ncols fun i j =>
    match A.get i j with
    | .ok x => .ok (a * x + b)
    | .error e => .error e

/-- one term `A(i,k) * B(k,j)` -/
def prodAt (A B : Store α) (i j k : Nat) : Res α :=
  match A.get i k, B.get k j with
  | .ok a, .ok b => .ok (a * b)
  | .error e, _ => .error e
  | _, .error e => .error e

/-- `mult(A, B, O)` (`MatrixTools.h:225-244`) -/
def mult (A B O : Store α) : Res (Store α) :=
  if A.ncols ≠ B.nrows then .error .dimension else
  fill (O.resize A.nrows B.ncols) A.nrows B.ncols fun i j => dot A.ncols fun k => prodAt A B i j k

/-- the four entries `A(i,k), iA(i,k), B(k,j), iB(k,j)` -/
def quad (A iA B iB : Store α) (i j k : Nat) : Res (α × α × α × α) :=
  match A.get i k, iA.get i k, B.get k j, iB.get k j with
  | .ok a, .ok ia, .ok b, .ok ib => .ok (a, ia, b, ib)
  | .error e, _, _, _ => .error e
  | _, .error e, _, _ => .error e
  | _, _, .error e, _ => .error e
  | _, _, _, .error e => .error e

def sameDims (X Y : Store α) : Bool := X.nrows == Y.nrows && X.ncols == Y.ncols

/-- real / imaginary part of entry `(i,j)` of the complex-pair product (`MatrixTools.h:270-271`) -/
def cmulReAt (A iA B iB : Store α) (n i j : Nat) : Res α :=
  dot n fun k =>
    match quad A iA B iB i j k with
    | .ok (a, ia, b, ib) => .ok (a * b - ia * ib)
    | .error e => .error e
def cmulImAt (A iA B iB : Store α) (n i j : Nat) : Res α :=
  dot n fun k =>
    match quad A iA B iB i j k with
    | .ok (a, ia, b, ib) => .ok (a * ib + ia * b)
    | .error e => .error e

/-- the two fills of the complex-pair product -/
def multCBody (A iA B iB O iO : Store α) : Res (Store α × Store α) :=
  match fill (O.resize A.nrows B.ncols) A.nrows B.ncols (cmulReAt A iA B iB A.ncols) with
  | .error e => .error e
  | .ok O1 =>
    match fill (iO.resize A.nrows B.ncols) A.nrows B.ncols (cmulImAt A iA B iB A.ncols) with
    | .error e => .error e
    | .ok iO1 => .ok (O1, iO1)

/-- `mult(A, iA, B, iB, O, iO)` (`MatrixTools.h:253-277`) -/
def multC (A iA B iB O iO : Store α) : Res (Store α × Store α) :=
  if A.ncols ≠ B.nrows then .error .dimension
  else if !sameDims iA A then .error .dimension
  else if !sameDims iB B then .error .dimension
  else multCBody A iA B iB O iO

/-- `mult(A, D, B, O)` (`MatrixTools.h:292-312`): `O(i,j) += A(i,k) * B(k,j) * D[k]` -/
def multD (A : Store α) (D : Array α) (B O : Store α) : Res (Store α) :=
  if A.ncols ≠ B.nrows then .error .dimension
  else if A.ncols ≠ D.size then .error .dimension
  else fill (O.resize A.nrows B.ncols) A.nrows B.ncols fun i j => dot A.ncols fun k =>
    match prodAt A B i j k, vget D k with
    | .ok ab, .ok d => .ok (ab * d)
    | .error e, _ => .error e
    | _, .error e => .error e

/-- the real / imaginary term of the complex product with a diagonal middle factor
(`MatrixTools.h:356-361`) -/
def multCDTerm (re : Bool) (A iA : Store α) (D iD : Array α) (B iB : Store α) (i j k : Nat) : Res α :=
  match quad A iA B iB i j k, vget D k, vget iD k with
  | .ok (a, ia, b, ib), .ok d, .ok id =>
    let ab := a * b - ia * ib
    let aib := a * ib + ia * b
    .ok (if re then ab * d - aib * id else ab * id + aib * d)
  | .error e, _, _ => .error e
  | _, .error e, _ => .error e
  | _, _, .error e => .error e

def multCDAt (re : Bool) (A iA : Store α) (D iD : Array α) (B iB : Store α) (i j : Nat) : Res α :=
  dot A.ncols fun k => multCDTerm re A iA D iD B iB i j k

/-- `mult(A, iA, D, iD, B, iB, O, iO)` (`MatrixTools.h:335-366`) -/
def multCD (A iA : Store α) (D iD : Array α) (B iB O iO : Store α) : Res (Store α × Store α) :=
  if A.ncols ≠ B.nrows then .error .dimension
  else if A.ncols ≠ D.size then .error .dimension
  else if A.ncols ≠ iD.size then .error .dimension
  else if !sameDims iA A then .error .dimension
  else if !sameDims iB B then .error .dimension
  else
    match fill (O.resize A.nrows B.ncols) A.nrows B.ncols (multCDAt true A iA D iD B iB) with
    | .error e => .error e
    | .ok O1 =>
      match fill (iO.resize A.nrows B.ncols) A.nrows B.ncols (multCDAt false A iA D iD B iB) with
      | .error e => .error e
      | .ok iO1 => .ok (O1, iO1)

/-- `x * y * z` of three checked reads, as `(x * y) * z` -/
def prod3 (x y z : Res α) : Res α :=
  match x, y, z with
  | .ok a, .ok b, .ok c => .ok (a * b * c)
  | .error e, _, _ => .error e
  | _, .error e, _ => .error e
  | _, _, .error e => .error e

def addR (acc : α) (x : Res α) : Res α :=
  match x with
  | .ok t => .ok (acc + t)
  | .error e => .error e

/-- the middle term `A(i,k) * (L[k-1]*B(k-1,j) + D[k]*B(k,j) + U[k]*B(k+1,j))` (`MatrixTools.h:405`) -/
def triMid (A : Store α) (D U L : Array α) (B : Store α) (i j k : Nat) : Res α :=
  match A.get i k, vget L (k - 1), B.get (k - 1) j, vget D k, B.get k j, vget U k, B.get (k + 1) j with
  | .ok a, .ok l, .ok bm, .ok d, .ok b, .ok u, .ok bp => .ok (a * (l * bm + d * b + u * bp))
  | _, _, _, _, _, _, _ => .error .ub

/-- the entry of the tridiagonal product; `dbl` = the unrepaired text, whose last line is outside
the `if (ncA >= 2)` -/
def triEntry (dbl : Bool) (A : Store α) (D U L : Array α) (B : Store α) (i j : Nat) : Res α :=
  let n := A.ncols
  match prod3 (A.get i 0) (vget D 0) (B.get 0 j) with
  | .error e => .error e
  | .ok x0 =>
    match (if B.nrows > 1 then addR x0 (prod3 (A.get i 0) (vget U 0) (B.get 1 j)) else .ok x0) with
    | .error e => .error e
    | .ok x1 =>
      match loopM (n - 2) (fun t acc => addR acc (triMid A D U L B i j (t + 1))) x1 with
      | .error e => .error e
      | .ok x2 =>
        if n ≥ 2 then
          match addR x2 (prod3 (A.get i (n - 1)) (vget L (n - 2)) (B.get (n - 2) j)) with
          | .error e => .error e
          | .ok x3 => addR x3 (prod3 (A.get i (n - 1)) (vget D (n - 1)) (B.get (n - 1) j))
        else if dbl then addR x2 (prod3 (A.get i (n - 1)) (vget D (n - 1)) (B.get (n - 1) j))
        else .ok x2

def multTGen (dbl : Bool) (A : Store α) (D U L : Array α) (B O : Store α) : Res (Store α) :=
  if A.ncols ≠ B.nrows then .error .dimension
  else if A.ncols ≠ D.size then .error .dimension
  else if A.ncols ≠ U.size + 1 then .error .dimension
  else if A.ncols ≠ L.size + 1 then .error .dimension
  else fill (O.resize A.nrows B.ncols) A.nrows B.ncols fun i j => triEntry dbl A D U L B i j

/-- tridiagonal `mult` before the repair: for `ncA = 1` the term `A(i,0)*D[0]*B(0,j)` is added twice -/
def multTOrig (A : Store α) (D U L : Array α) (B O : Store α) : Res (Store α) := multTGen true A D U L B O

/-- `mult(A, D, U, L, B, O)` (`MatrixTools.h:385-414`) -/
def multT (A : Store α) (D U L : Array α) (B O : Store α) : Res (Store α) := multTGen false A D U L B O

/-- `A(i,j) op B(i,j)` of two checked reads -/
def zipAt (f : α → α → α) (A B : Store α) (i j : Nat) : Res α :=
  match A.get i j, B.get i j with
  | .ok a, .ok b => .ok (f a b)
  | .error e, _ => .error e
  | _, .error e => .error e

/-- `add(A, B)` before the repair (`MatrixTools.h:414-431` of the unrepaired file): only
`ncA > ncB` / `nrA > nrB` raise -/
def addOrig (A B : Store α) : Res (Store α) :=
  if A.ncols > B.ncols then .error .dimension
  else if A.nrows > B.nrows then .error .dimension
  else fill A A.nrows A.ncols fun i j => zipAt (· + ·) A B i j

/-- `add(A, B)` (`MatrixTools.h:424-441`): `A(i,j) += B(i,j)` -/
def add (A B : Store α) : Res (Store α) :=
  if A.ncols ≠ B.ncols then .error .dimension
  else if A.nrows ≠ B.nrows then .error .dimension
  else fill A A.nrows A.ncols fun i j => zipAt (· + ·) A B i j

/-- `add(A, x, B)` (`MatrixTools.h:452-468`): `A(i,j) += x * B(i,j)` -/
def addS (A : Store α) (x : α) (B : Store α) : Res (Store α) :=
  if A.ncols ≠ B.ncols then .error .dimension
  else if A.nrows ≠ B.nrows then .error .dimension
  else fill A A.nrows A.ncols fun i j => zipAt (fun a b => a + x * b) A B i j

/-- `pow(A, p, O)` (`MatrixTools.h:482-512`).  `A`, `O` and the local `tmp` have the same class
(one template parameter). -/
def pow (A : Store α) (p : Nat) (O : Store α) : Res (Store α) :=
  if A.nrows ≠ A.ncols then .error .dimension else
  match p with
  | 0 => getId A.nrows O
  | 1 => copy A O
  | 2 => mult A A O
  | q + 3 =>
    if (q + 3) % 2 = 0 then
      match pow A ((q + 3) / 2) (Store.empty A.kind) with
      | .ok tmp => pow tmp 2 O
      | .error e => .error e
    else
      match pow A ((q + 3 - 1) / 2) (Store.empty A.kind) with
      | .error e => .error e
      | .ok tmp =>
        match mult tmp tmp O with
        | .error e => .error e
        | .ok O1 =>
          match mult A O1 tmp with
          | .error e => .error e
          | .ok tmp2 => copy tmp2 O1
termination_by p
decreasing_by all_goals omega

/-- iteration `i = t + 1` of the loop of `Taylor`: `mult(vO[i], A, vO[i+1])` (`MatrixTools.h:577-580`) -/
def taylorStep (A : Store α) (t : Nat) (vO : Array (Store α)) : Res (Array (Store α)) :=
  match vget vO (t + 1) with
  | .error e => .error e
  | .ok last =>
    match mult last A (Store.empty .row) with
    | .ok nxt => .ok (vO.push nxt)
    | .error e => .error e

/-- `Taylor` before the repair (`MatrixTools.h:557-570` of the unrepaired file): `copy(A, vO[1])`
also when `vO` has one element -/
def taylorOrig (A : Store α) (p : Nat) : Res (Array (Store α)) :=
  if A.nrows ≠ A.ncols then .error .dimension else
  match getId A.nrows (Store.empty .row) with
  | .error e => .error e
  | .ok v0 =>
    if p = 0 then .error .ub else
    match copy A (Store.empty .row) with
    | .error e => .error e
    | .ok v1 =>
      loopM (p - 1) (taylorStep A) #[v0, v1]

/-- `Taylor(A, p, vO)` (`MatrixTools.h:567-581`): `vO[0] = Id`, `vO[1] = A`, `vO[i+1] = vO[i]·A`;
the elements of `vO` are row-stored, `vO` is passed empty -/
def taylor (A : Store α) (p : Nat) : Res (Array (Store α)) :=
  if A.nrows ≠ A.ncols then .error .dimension else
  match getId A.nrows (Store.empty .row) with
  | .error e => .error e
  | .ok v0 =>
    if p = 0 then .ok #[v0] else
    match copy A (Store.empty .row) with
    | .error e => .error e
    | .ok v1 =>
      loopM (p - 1) (taylorStep A) #[v0, v1]

/-- comparisons against the sentinels `std::log(0.)` = `-∞` and `-std::log(0.)` = `+∞`
(`MatrixTools.h:594, 626, 654, 680`).  At `ℝ` and `Rat` every number is `> -∞` and `< +∞`. -/
class ExtCmp (α : Type) where
  gtNegInf : α → Bool
  ltPosInf : α → Bool

instance : ExtCmp Float := ⟨fun x => x > -(1.0 / 0.0), fun x => x < 1.0 / 0.0⟩
instance : ExtCmp Rat := ⟨fun _ => true, fun _ => true⟩

/-- state of an extremum scan: position and current extremum (`none` = the sentinel) -/
structure Scan (α : Type) where
  i : Nat
  j : Nat
  cur : Option α

/-- one position of an extremum scan: `if (m(i,j) > currentMax) { imax = i; jmax = j; currentMax = … }` -/
def scanStep (first : α → Bool) (better : α → α → Bool) (m : Store α) (i j : Nat) (s : Scan α) : Res (Scan α) :=
  match m.get i j with
  | .error e => .error e
  | .ok x =>
    let take := match s.cur with
      | none => first x
      | some c => better x c
    .ok (if take then ⟨i, j, some x⟩ else s)

/-- the scan shared by `whichMax`, `whichMin`, `max`, `min` (`MatrixTools.h:587-693`):
row-major, strict comparison (the first extremum wins) -/
def scan (first : α → Bool) (better : α → α → Bool) (m : Store α) : Res (Scan α) :=
  loopM m.nrows (fun i s => loopM m.ncols (fun j s => scanStep first better m i j s) s) ⟨0, 0, none⟩

def scanMax [ExtCmp α] (m : Store α) : Res (Scan α) := scan ExtCmp.gtNegInf (fun x c => gtb x c) m
def scanMin [ExtCmp α] (m : Store α) : Res (Scan α) := scan ExtCmp.ltPosInf (fun x c => ltb x c) m

/-- `transpose` (`MatrixTools.h:841-851`) -/
def transpose (A O : Store α) : Res (Store α) :=
  fill (O.resize A.ncols A.nrows) A.ncols A.nrows fun i j => A.get j i

/-- `isSymmetric` (`MatrixTools.h:858-872`) -/
def isSymmetric (A : Store α) : Res Bool :=
  if A.ncols ≠ A.nrows then .ok false else
  loopM A.ncols (fun i ok =>
    if !ok then .ok false else
    loopM (A.nrows - (i + 1)) (fun t ok =>
      if !ok then .ok false else
      match A.get i (i + 1 + t), A.get (i + 1 + t) i with
      | .ok a, .ok b => .ok (eqb a b)
      | .error e, _ => .error e
      | _, .error e => .error e) true) true

/-- `mean(i,0) += A(i,j)` over `j`, then `mean(i,0) /= n` (`MatrixTools.h:897-904`) -/
def meanAt (A : Store α) (i _j : Nat) : Res α :=
  match dot A.ncols (fun j => A.get i j) with
  | .ok s => .ok (s / ofInt A.ncols)
  | .error e => .error e

/-- `covar` (`MatrixTools.h:887-911`); every temporary is row-stored -/
def covar (A O : Store α) : Res (Store α) :=
  let r := A.nrows; let n := A.ncols
  let O0 := O.resize r r
  match transpose A (Store.empty .row) with
  | .error e => .error e
  | .ok tA =>
  match mult A tA O0 with
  | .error e => .error e
  | .ok O1 =>
  match scale O1 (one / ofInt n) zero with
  | .error e => .error e
  | .ok O2 =>
  match fill ((Store.empty .row : Store α).resize r 1) r 1 (meanAt A) with
  | .error e => .error e
  | .ok mean =>
  match transpose mean (Store.empty .row) with
  | .error e => .error e
  | .ok tMean =>
  match mult mean tMean (Store.empty .row) with
  | .error e => .error e
  | .ok meanMat =>
  match scale meanMat (ofInt (-1)) zero with
  | .error e => .error e
  | .ok mm => add O2 mm

/-- the block loop nest shared by the three Kronecker products (`MatrixTools.h:932-946, 967-981,
1002-1017`): `for ia, ja: aij = …; for ib, jb: O(ia*nrB+ib, ja*ncB+jb) = aij * b(ib,jb)` -/
def kronLoop (O : Store α) (nrA ncA nrB ncB : Nat) (a : Nat → Nat → Res α) (b : Nat → Nat → Res α) :
    Res (Store α) :=
  loopM nrA (fun ia O => loopM ncA (fun ja O =>
    match a ia ja with
    | .error e => .error e
    | .ok aij =>
      fillBlock O (ia * nrB) (ja * ncB) nrB ncB fun ib jb =>
        match b ib jb with
        | .ok x => .ok (aij * x)
        | .error e => .error e) O) O

/-- `kroneckerMult(A, B, O, check)` (`MatrixTools.h:922-946`) -/
def kron (A B O : Store α) (check : Bool) : Res (Store α) :=
  let O0 := if check then O.resize (A.nrows * B.nrows) (A.ncols * B.ncols) else O
  kronLoop O0 A.nrows A.ncols B.nrows B.ncols (fun ia ja => A.get ia ja) (fun ib jb => B.get ib jb)

/-- `kroneckerMult(A, dim, v, O, check)` (`MatrixTools.h:959-981`) -/
def kronD (A : Store α) (dim : Nat) (v : α) (O : Store α) (check : Bool) : Res (Store α) :=
  let O0 := if check then O.resize (A.nrows * dim) (A.ncols * dim) else O
  kronLoop O0 A.nrows A.ncols dim dim (fun ia ja => A.get ia ja)
    (fun ib jb => .ok (if ib = jb then v else zero))

/-- `kroneckerMult(A, B, dA, dB, O, check)` (`MatrixTools.h:995-1020`) -/
def kron2 (A B : Store α) (dA dB : α) (O : Store α) (check : Bool) : Res (Store α) :=
  let O0 := if check then O.resize (A.nrows * B.nrows) (A.ncols * B.ncols) else O
  kronLoop O0 A.nrows A.ncols B.nrows B.ncols
    (fun ia ja => if ia = ja then .ok dA else A.get ia ja)
    (fun ib jb => if ib = jb then .ok dB else B.get ib jb)

/-- `hadamardMult(A, B, O)` (`MatrixTools.h:1030-1046`) -/
def had (A B O : Store α) : Res (Store α) :=
  if A.nrows ≠ B.nrows then .error .dimension
  else if A.ncols ≠ B.ncols then .error .dimension
  else fill (O.resize A.nrows A.ncols) A.nrows A.ncols fun i j => zipAt (· * ·) A B i j

/-- the four entries at `(i,j)` -/
def quadAt (A iA B iB : Store α) (i j : Nat) : Res (α × α × α × α) :=
  match A.get i j, iA.get i j, B.get i j, iB.get i j with
  | .ok a, .ok ia, .ok b, .ok ib => .ok (a, ia, b, ib)
  | .error e, _, _, _ => .error e
  | _, .error e, _, _ => .error e
  | _, _, .error e, _ => .error e
  | _, _, _, .error e => .error e

/-- real / imaginary part of entry `(i,j)` of the complex-pair Hadamard product (`MatrixTools.h:1073-1074`) -/
def hadReAt (A iA B iB : Store α) (i j : Nat) : Res α :=
  match quadAt A iA B iB i j with
  | .ok (a, ia, b, ib) => .ok (a * b - ia * ib)
  | .error e => .error e
def hadImAt (A iA B iB : Store α) (i j : Nat) : Res α :=
  match quadAt A iA B iB i j with
  | .ok (a, ia, b, ib) => .ok (ia * b + a * ib)
  | .error e => .error e

def hadCBody (A iA B iB O iO : Store α) : Res (Store α × Store α) :=
  match fill (O.resize A.nrows A.ncols) A.nrows A.ncols (hadReAt A iA B iB) with
  | .error e => .error e
  | .ok O1 =>
    match fill (iO.resize A.nrows A.ncols) A.nrows A.ncols (hadImAt A iA B iB) with
    | .error e => .error e
    | .ok iO1 => .ok (O1, iO1)

/-- `hadamardMult(A, iA, B, iB, O, iO)` (`MatrixTools.h:1059-1079`) -/
def hadC (A iA B iB O iO : Store α) : Res (Store α × Store α) :=
  if A.nrows ≠ B.nrows then .error .dimension
  else if A.ncols ≠ B.ncols then .error .dimension
  else if !sameDims iA A then .error .dimension
  else if !sameDims iB B then .error .dimension
  else hadCBody A iA B iB O iO

/-- `hadamardMult(A, vector, O, row)` (`MatrixTools.h:1090-1118`) -/
def hadV (A : Store α) (v : Array α) (O : Store α) (row : Bool) : Res (Store α) :=
  if row && A.nrows != v.size then .error .dimension
  else if !row && A.ncols != v.size then .error .dimension
  else fill (O.resize A.nrows A.ncols) A.nrows A.ncols fun i j =>
    match A.get i j, vget v (if row then i else j) with
    | .ok a, .ok w => .ok (a * w)
    | .error e, _ => .error e
    | _, .error e => .error e

/-- `directSum(A, B, O)` (`MatrixTools.h:1128-1167`): four block loops (`A`, zeros right of it, zeros
below it, `B`; the last one ran `jb < nrB` before the repair) -/
def dsum (A B O : Store α) : Res (Store α) :=
  let nrA := A.nrows; let ncA := A.ncols; let nrB := B.nrows; let ncB := B.ncols
  match fillBlock (O.resize (nrA + nrB) (ncA + ncB)) 0 0 nrA ncA (fun i j => A.get i j) with
  | .error e => .error e
  | .ok O1 =>
  match fillBlock O1 0 ncA nrA ncB (fun _ _ => .ok zero) with
  | .error e => .error e
  | .ok O2 =>
  match fillBlock O2 nrA 0 nrB ncA (fun _ _ => .ok zero) with
  | .error e => .error e
  | .ok O3 => fillBlock O3 nrA ncA nrB ncB (fun i j => B.get i j)

/-- one block of the n-ary direct sum: `O(rk + i, ck + j) = Ak(i, j)`, then `rk += rows`, `ck += cols`
(`MatrixTools.h:1195-1207`) -/
def dsumNStep (st : Store α × Nat × Nat) (Ak : Store α) : Res (Store α × Nat × Nat) :=
  match fillBlock st.1 st.2.1 st.2.2 Ak.nrows Ak.ncols (fun i j => Ak.get i j) with
  | .ok O2 => .ok (O2, st.2.1 + Ak.nrows, st.2.2 + Ak.ncols)
  | .error e => .error e

/-- `directSum(vector<Matrix*>, O)` (`MatrixTools.h:1176-1209`) -/
def dsumN (vA : List (Store α)) (O : Store α) : Res (Store α) :=
  let nr := vA.foldl (fun s M => s + M.nrows) 0
  let nc := vA.foldl (fun s M => s + M.ncols) 0
  match fill (O.resize nr nc) nr nc (fun _ _ => .ok zero) with
  | .error e => .error e
  | .ok O1 =>
    match vA.foldlM dsumNStep (O1, 0, 0) with
    | .ok st => .ok st.1
    | .error e => .error e

/-- `toVVdouble` (`MatrixTools.h:1218-1231`) -/
def toVV (M : Store α) : Res (Array (Array α)) :=
  collect M.nrows fun i => collect M.ncols fun j => M.get i j

/-- `sumElements` (`MatrixTools.h:1239-1250`) -/
def sumElements (M : Store α) : Res α :=
  loopM M.nrows (fun i s => loopM M.ncols (fun j s => addR s (M.get i j)) s) zero

end Routines

/-! ## Specification vocabulary

Executable textbook definitions on entry functions `Nat → Nat → α`, in which the property
theorems are stated and which the driver evaluates (at `Rat`, exactly) on the operands it sent and
compares with the *implementation's* answers. -/
namespace Spec
variable {α : Type} [Scalar α]
open Scalar

/-- `Σ_{k<n} f k` -/
def sumTo (n : Nat) (f : Nat → α) : α := (List.range n).foldl (fun acc k => acc + f k) zero

abbrev Fn (α : Type) := Nat → Nat → α

def mult (a b : Fn α) (n : Nat) : Fn α := fun i j => sumTo n fun k => a i k * b k j
def identity : Fn α := fun i j => if i = j then one else zero
def diag (d : Nat → α) : Fn α := fun i j => if i = j then d i else zero
/-- the tridiagonal matrix with diagonal `d`, super-diagonal `u`, sub-diagonal `l` -/
def tridiag (d u l : Nat → α) : Fn α := fun i j =>
  if i = j then d i else if j = i + 1 then u i else if i = j + 1 then l j else zero
def transpose (a : Fn α) : Fn α := fun i j => a j i
def add (a b : Fn α) : Fn α := fun i j => a i j + b i j
def addS (a : Fn α) (x : α) (b : Fn α) : Fn α := fun i j => a i j + x * b i j
def scale (a : Fn α) (x y : α) : Fn α := fun i j => x * a i j + y
def had (a b : Fn α) : Fn α := fun i j => a i j * b i j
/-- `A ⊗ B` for a `B` with `rb × cb` entries -/
def kron (a b : Fn α) (rb cb : Nat) : Fn α := fun i j => a (i / rb) (j / cb) * b (i % rb) (j % cb)
/-- `A ⊕ B` for an `A` with `ra × ca` entries and a `B` with `rb × cb` entries -/
def dsum (a b : Fn α) (ra ca rb cb : Nat) : Fn α := fun i j =>
  if i < ra then (if j < ca then a i j else zero)
  else if j < ca then zero
  else if i - ra < rb ∧ j - ca < cb then b (i - ra) (j - ca) else zero
/-- the `n × n` leading block of `f` as a table, and reading a table (`0` outside) -/
def tabulate (n : Nat) (f : Fn α) : Array (Array α) :=
  Array.ofFn (n := n) fun i => Array.ofFn (n := n) fun j => f i.val j.val
def look (t : Array (Array α)) : Fn α := fun i j =>
  match t[i]? with
  | some r => (match r[j]? with
    | some x => x
    | none => zero)
  | none => zero
/-- the n-ary direct sum, folded from the left: (rows so far, columns so far, entries so far) -/
def dsumFold (acc : Nat × Nat × Fn α) (blocks : List (Nat × Nat × Fn α)) : Nat × Nat × Fn α :=
  blocks.foldl (fun a b => (a.1 + b.1, a.2.1 + b.2.1, dsum a.2.2 b.2.2 a.1 a.2.1 b.1 b.2.1)) acc

/-- `A^p` for the `n × n` leading block of `a`, tabulated at every step (`A^0 = I`,
`A^(p+1) = A^p · A`) so that evaluation is polynomial -/
def powTab (a : Fn α) (n : Nat) : Nat → Array (Array α)
  | 0 => tabulate n identity
  | p + 1 => tabulate n (mult (look (powTab a n p)) a n)
def pow (a : Fn α) (n p : Nat) : Fn α := look (powTab a n p)
/-- real and imaginary part of a product of complex pairs -/
def cmulRe (a ia b ib : Fn α) (n : Nat) : Fn α := fun i j => sumTo n fun k => a i k * b k j - ia i k * ib k j
def cmulIm (a ia b ib : Fn α) (n : Nat) : Fn α := fun i j => sumTo n fun k => a i k * ib k j + ia i k * b k j
/-- mean of row `i` over `n` columns -/
def rowMean (a : Fn α) (n : Nat) (i : Nat) : α := sumTo n (fun j => a i j) / ofInt n
/-- `(1/n) A Aᵀ − μ μᵀ` -/
def covar (a : Fn α) (n : Nat) : Fn α := fun i l =>
  (one / ofInt n) * sumTo n (fun j => a i j * a l j) + ofInt (-1) * (rowMean a n i * rowMean a n l)
/-- sum of all entries, row by row -/
def total (a : Fn α) (r c : Nat) : α :=
  (List.range r).foldl (fun s i => (List.range c).foldl (fun s j => s + a i j) s) zero

end Spec

/-! ## What an output must satisfy -/

/-- `S` has the dimensions that its class reports for an `r × c` matrix and holds the entries `f` -/
def Store.Holds {α : Type} (S : Store α) (r c : Nat) (f : Nat → Nat → α) : Prop :=
  S.WF ∧ (S.nrows, S.ncols) = S.kind.shape r c ∧ ∀ i j, i < r → j < c → S.get i j = .ok (f i j)

end Bpp.Mx
