import BppModel.Graph
/-
Model of src/Bpp/Graph/AssociationGraphImplObserver.h (instantiated at GlobalGraph): the
association layer that maps objects to graph ids and to user indices,

  graphidToN_ / graphidToE_ : vector<shared_ptr>       (:57, :63)    id    -> object
  NToGraphid_ / EToGraphid_ : map<shared_ptr, id>      (:68, :73)    object -> id
  indexToN_   / indexToE_   : vector<shared_ptr>       (:88, :93)    index -> object
  NToIndex_   / EToIndex_   : map<shared_ptr, index>   (:98, :103)   object -> index

Objects are modelled by labels (`Nat`); the null pointer is `none`.  A `std::map` keyed by
pointers is an association list keyed by label (its iteration order — pointer order — is
only used by the copy constructor, where it does not matter as long as the maps are
inverse of each other, which `Props/C14Observer.lean` proves is an invariant).
Several observers may watch the same graph (an observer copy shares the graph): a `World`
is the graph plus the observers; `notifyDeletedEdges/Nodes` reach every one of them.
Line numbers refer to the library worktree (with its `fix:` commits).
-/
namespace Bpp.Graph

abbrev Obj := Nat
/-- `std::vector<std::shared_ptr<T>>` -/
abbrev Vec := List (Option Obj)

namespace Vec
/-- `v.at(i)` for `i < size`, null beyond (callers test the size first) -/
def get (v : Vec) (i : Nat) : Option Obj := (v[i]?).join
/-- `if (v.size() < n) v.resize(n)` -/
def grow (v : Vec) (n : Nat) : Vec := v ++ List.replicate (n - v.length) none
/-- `v.at(i) = o` (for `i < size`) -/
def put (v : Vec) (i : Nat) (o : Option Obj) : Vec := v.set i o
/-- first index holding null, or the size (`addNodeIndex`, :862) -/
def firstFree : Vec → Nat
  | [] => 0
  | none :: _ => 0
  | some _ :: r => firstFree r + 1
end Vec

structure Obs where
  gN : Vec := []
  gE : Vec := []
  Ng : List (Nat × Nat) := []
  Eg : List (Nat × Nat) := []
  iN : Vec := []
  iE : Vec := []
  Ni : List (Nat × Nat) := []
  Ei : List (Nat × Nat) := []
deriving DecidableEq, Repr, Inhabited

structure World where
  g : G
  obs : List (Option Obs) := [some {}, none, none]
deriving DecidableEq, Repr

inductive Kind where
  | bpp   -- bpp::Exception
  | std   -- std::out_of_range from vector::at
deriving DecidableEq, Repr

inductive OOut (α : Type) where
  | ok (a : α) (w : World)
  | exc (k : Kind) (w : World)
  | ub
deriving Repr

namespace Obs

/-- `hasNode(Nref)` (:342): null is never a node -/
def hasNode (o : Obs) (a : Obj) : Bool := AL.has a o.Ng
def hasEdge (o : Obs) (e : Obj) : Bool := AL.has e o.Eg
/-- `getNodeFromGraphid` (:654) -/
def nodeFromGid (o : Obs) (id : Nat) : Option Obj := if id ≥ o.gN.length then none else Vec.get o.gN id
def edgeFromGid (o : Obs) (id : Nat) : Option Obj := if id ≥ o.gE.length then none else Vec.get o.gE id
/-- `getNodesFromGraphid` (:668): ids without object are skipped -/
def nodesFromGids (o : Obs) (ids : List Nat) : List Obj := ids.filterMap o.nodeFromGid
def edgesFromGids (o : Obs) (ids : List Nat) : List Obj := ids.filterMap o.edgeFromGid
/-- `hasNode(NodeIndex)` (:916) -/
def hasNodeIdx (o : Obs) (i : Nat) : Bool := decide (i < o.iN.length) && (Vec.get o.iN i).isSome
def hasEdgeIdx (o : Obs) (i : Nat) : Bool := decide (i < o.iE.length) && (Vec.get o.iE i).isSome

/-- forget the index of an object (deletedNodesUpdate, :1546-1552) -/
def forgetNodeIndex (o : Obs) (a : Obj) : Obs :=
  match AL.find a o.Ni with
  | some i => { o with iN := Vec.put o.iN i none, Ni := AL.erase a o.Ni }
  | none => o
def forgetEdgeIndex (o : Obs) (e : Obj) : Obs :=
  match AL.find e o.Ei with
  | some i => { o with iE := Vec.put o.iE i none, Ei := AL.erase e o.Ei }
  | none => o

/-- `deletedEdgesUpdate` (:1511), one edge id -/
def deletedEdge (o : Obs) (e : Nat) : Obs :=
  if o.gE.length > e then
    match Vec.get o.gE e with
    | some x => forgetEdgeIndex { o with gE := Vec.put o.gE e none, Eg := AL.erase x o.Eg } x
    | none => { o with gE := Vec.put o.gE e none }
  else o

/-- `deletedNodesUpdate` (:1538), one node id -/
def deletedNode (o : Obs) (n : Nat) : Obs :=
  if o.gN.length > n then
    match Vec.get o.gN n with
    | some x => forgetNodeIndex { o with gN := Vec.put o.gN n none, Ng := AL.erase x o.Ng } x
    | none => { o with gN := Vec.put o.gN n none }
  else o

def notify (o : Obs) : Event → Obs
  | .edges l => l.foldl deletedEdge o
  | .nodes l => l.foldl deletedNode o

end Obs

namespace World

/-- deliver the pending notifications of the graph to every registered observer -/
def deliver (w : World) : World :=
  { g := { w.g with pending := [] },
    obs := w.obs.map (fun o => o.map (fun o => w.g.pending.foldl Obs.notify o)) }

def getObs (w : World) (k : Nat) : Option Obs := (w.obs[k]?).join
def setObs (w : World) (k : Nat) (o : Obs) : World := { w with obs := w.obs.set k (some o) }

/-- `associateNode` (:556) on observer `o` against graph `g` -/
def associateNode (g : G) (o : Obs) (a : Obj) (id : Nat) : Except Kind Obs :=
  if o.hasNode a then .error .bpp
  else if !g.hasNode id then .error .bpp
  else if (o.nodeFromGid id).isSome then .error .bpp
  else
    let gN := Vec.grow o.gN (id + 1)
    .ok { o with gN := Vec.put gN id (some a), Ng := AL.set a id o.Ng }

/-- `associateEdge` (:580) -/
def associateEdge (g : G) (o : Obs) (x : Obj) (e : Nat) : Except Kind Obs :=
  if o.hasEdge x then .error .bpp
  else if !g.hasEdge e then .error .bpp
  else if (o.edgeFromGid e).isSome then .error .bpp
  else
    let gE := Vec.grow o.gE (e + 1)
    .ok { o with gE := Vec.put gE e (some x), Eg := AL.set x e o.Eg }

/-- `createNode(Nref)` (:450) -/
def createNode (w : World) (k : Nat) (a : Obj) : OOut Unit :=
  match w.getObs k with
  | none => .ub
  | some o =>
    if o.hasNode a then .exc .bpp w
    else
      match w.g.createNode with
      | .exc g' => .exc .bpp { w with g := g' }
      | .ok id g' =>
        match associateNode g' o a id with
        | .error kd => .exc kd { w with g := g' }
        | .ok o' => .ok () ({ w with g := g' }.setObs k o')

/-- `link(A, B, E)` (:488); `x = none` is the call without edge object -/
def link (w : World) (k : Nat) (a b : Obj) (x : Option Obj) : OOut Unit :=
  match w.getObs k with
  | none => .ub
  | some o =>
    match AL.find a o.Ng, AL.find b o.Ng with
    | some ia, some ib =>
      if (match x with | some x => o.hasEdge x | none => false) then .exc .bpp w
      else
        match w.g.link ia ib with
        | .exc g' => .exc .bpp { w with g := g' }
        | .ok e g' =>
          let gE := Vec.put (Vec.grow o.gE (e + 1)) e x
          let o' := match x with
            | some x => { o with gE := gE, Eg := AL.set x e o.Eg }
            | none => { o with gE := gE }
          .ok () ({ w with g := g' }.setObs k o')
    | _, _ => .exc .bpp w

/-- `createNode(origin, newNode, edge)` (:467) -/
def createNodeFrom (w : World) (k : Nat) (origin a : Obj) (x : Option Obj) : OOut Unit :=
  match w.getObs k with
  | none => .ub
  | some o =>
    if !o.hasNode origin then .exc .bpp w
    else if (match x with | some x => o.hasEdge x | none => false) then .exc .bpp w
    else
      match createNode w k a with
      | .ok _ w1 => link w1 k origin a x
      | r => r

/-- `unlink(A, B)` (:517) -/
def unlink (w : World) (k : Nat) (a b : Obj) : OOut Unit :=
  match w.getObs k with
  | none => .ub
  | some o =>
    match AL.find a o.Ng, AL.find b o.Ng with
    | some ia, some ib =>
      match w.g.unlink ia ib with
      | .exc g' => .exc .bpp ({ w with g := g' }.deliver)
      | .ok _ g' => .ok () ({ w with g := g' }.deliver)
    | _, _ => .exc .bpp w

/-- `dissociateNode` (:603) -/
def dissociateNodeO (o : Obs) (a : Obj) : Except Kind Obs :=
  match AL.find a o.Ng with
  | none => .error .bpp
  | some id =>
    if id < o.gN.length then .ok { o with gN := Vec.put o.gN id none, Ng := AL.erase a o.Ng }
    else .error .std

def dissociateEdgeO (o : Obs) (x : Obj) : Except Kind Obs :=
  match AL.find x o.Eg with
  | none => .error .bpp
  | some e =>
    if e < o.gE.length then .ok { o with gE := Vec.put o.gE e none, Eg := AL.erase x o.Eg }
    else .error .std

/-- `deleteNode(Nref)` (:533) -/
def deleteNode (w : World) (k : Nat) (a : Obj) : OOut Unit :=
  match w.getObs k with
  | none => .ub
  | some o =>
    match AL.find a o.Ng with
    | none => .exc .bpp w
    | some id =>
      match w.g.deleteNode id with
      | .exc g' => .exc .bpp ({ w with g := g' }.deliver)
      | .ok _ g' =>
        let w1 := { w with g := g' }.deliver
        -- `if (hasNode(nodeObject)) dissociateNode(nodeObject)`
        match w1.getObs k with
        | none => .ub
        | some o1 =>
          if o1.hasNode a then
            match dissociateNodeO o1 a with
            | .ok o2 => .ok () (w1.setObs k o2)
            | .error kd => .exc kd w1
          else .ok () w1

/-- apply an observer-local operation -/
def localOp (w : World) (k : Nat) (f : G → Obs → Except Kind Obs) : OOut Unit :=
  match w.getObs k with
  | none => .ub
  | some o =>
    match f w.g o with
    | .ok o' => .ok () (w.setObs k o')
    | .error kd => .exc kd w

/-- `setNodeIndex` (:808) -/
def setNodeIndexO (o : Obs) (a : Obj) (i : Nat) : Except Kind Obs :=
  if o.hasNodeIdx i then .error .bpp
  else if AL.has a o.Ni then .error .bpp
  else
    let iN := if i ≥ o.iN.length then Vec.grow o.iN (i + 1) else o.iN
    .ok { o with iN := Vec.put iN i (some a), Ni := AL.set a i o.Ni }

def setEdgeIndexO (o : Obs) (x : Obj) (i : Nat) : Except Kind Obs :=
  if o.hasEdgeIdx i then .error .bpp
  else if AL.has x o.Ei then .error .bpp
  else
    let iE := if i ≥ o.iE.length then Vec.grow o.iE (i + 1) else o.iE
    .ok { o with iE := Vec.put iE i (some x), Ei := AL.set x i o.Ei }

/-- `addNodeIndex` (:855): first free slot -/
def addNodeIndexO (o : Obs) (a : Obj) : Except Kind (Nat × Obs) :=
  if AL.has a o.Ni then .error .bpp
  else
    let i := Vec.firstFree o.iN
    let iN := if i ≥ o.iN.length then Vec.grow o.iN (i + 1) else o.iN
    .ok (i, { o with iN := Vec.put iN i (some a), Ni := AL.set a i o.Ni })

def addEdgeIndexO (o : Obs) (x : Obj) : Except Kind (Nat × Obs) :=
  if AL.has x o.Ei then .error .bpp
  else
    let i := Vec.firstFree o.iE
    let iE := if i ≥ o.iE.length then Vec.grow o.iE (i + 1) else o.iE
    .ok (i, { o with iE := Vec.put iE i (some x), Ei := AL.set x i o.Ei })

/-- `setEdgeLinking` (:1494) -/
def setEdgeLinkingO (g : G) (o : Obs) (a b x : Obj) : Except Kind Obs :=
  match AL.find a o.Ng with
  | none => .error .bpp
  | some ia =>
    match AL.find b o.Ng with
    | none => .error .bpp
    | some ib =>
      match g.getEdge ia ib with
      | none => .error .bpp
      | some e => associateEdge g o x e

/-- the copy constructor (:204): objects are copied (same labels), the graph is shared;
only objects registered in `NToGraphid_` / `EToGraphid_` are taken over -/
def copyObs (o : Obs) : Obs :=
  let gN := o.Ng.foldl (fun v p => Vec.put v p.2 (some p.1)) (List.replicate o.gN.length none)
  let gE := o.Eg.foldl (fun v p => Vec.put v p.2 (some p.1)) (List.replicate o.gE.length none)
  let ni := o.Ng.filterMap (fun p => (AL.find p.1 o.Ni).map (fun i => (p.1, i)))
  let ei := o.Eg.filterMap (fun p => (AL.find p.1 o.Ei).map (fun i => (p.1, i)))
  let iN := ni.foldl (fun v p => Vec.put v p.2 (some p.1)) (List.replicate o.iN.length none)
  let iE := ei.foldl (fun v p => Vec.put v p.2 (some p.1)) (List.replicate o.iE.length none)
  { gN := gN, gE := gE, Ng := o.Ng, Eg := o.Eg, iN := iN, iE := iE, Ni := ni, Ei := ei }

/-- `graphidToN_[id] = node` in the copy constructor is `vector::operator[]`: an id beyond the
size is undefined behaviour -/
def copyDefined (o : Obs) : Bool :=
  o.Ng.all (fun p => decide (p.2 < o.gN.length)) && o.Eg.all (fun p => decide (p.2 < o.gE.length)) &&
  o.Ng.all (fun p => match AL.find p.1 o.Ni with | some i => decide (i < o.iN.length) | none => true) &&
  o.Eg.all (fun p => match AL.find p.1 o.Ei with | some i => decide (i < o.iE.length) | none => true)

def copy (w : World) (j k : Nat) : OOut Unit :=
  match w.getObs j with
  | none => .ub
  | some o => if j = k || !copyDefined o then .ub else .ok () (w.setObs k (copyObs o))

/-- the destructor (:317): the observer leaves the graph -/
def drop (w : World) (k : Nat) : World := { w with obs := w.obs.set k none }

/-- a graph-level mutator called directly on `getGraph()`: notifications reach the observers -/
def graphOp {α : Type} (w : World) (r : GOut α) : GOut α × World :=
  match r with
  | .ok a g' => (.ok a { g' with pending := [] }, { w with g := g' }.deliver)
  | .exc g' => (.exc { g' with pending := [] }, { w with g := g' }.deliver)


/-! ### queries through objects -/

/-- `getNodeGraphid` then a graph query on the id, mapped back to objects -/
def nodeQuery (w : World) (o : Obs) (a : Obj) (q : G → Nat → Option (List Nat)) (edges : Bool) : Option (List Obj) :=
  match AL.find a o.Ng with
  | none => none
  | some id => (q w.g id).map (fun l => if edges then o.edgesFromGids l else o.nodesFromGids l)

/-- `getNodes(Eref)` (:1471) -/
def edgeEnds (w : World) (o : Obs) (x : Obj) : Option (Option Obj × Option Obj) :=
  match AL.find x o.Eg with
  | none => none
  | some e => (w.g.getNodes e).map (fun p => (o.nodeFromGid p.1, o.nodeFromGid p.2))

/-- `getEdgeLinking` (:1483): `none` = throws, `some none` = the edge has no object -/
def edgeLinking (w : World) (o : Obs) (a b : Obj) : Option (Option Obj) :=
  match AL.find a o.Ng, AL.find b o.Ng with
  | some ia, some ib => (w.g.getEdge ia ib).map o.edgeFromGid
  | _, _ => none

/-- `getAllNodes` (:1312): the non-null slots of `graphidToN_` -/
def allNodeObjs (o : Obs) : List Obj := o.gN.filterMap id
def allEdgeObjs (o : Obs) : List Obj := o.gE.filterMap id

end World

/-! ### histories of operations on a graph and its observers -/

inductive WOp where
  | graph (op : Op)                                   -- a mutator called on `getGraph()`
  | createNode (k : Nat) (a : Obj)
  | createNodeFrom (k : Nat) (origin a : Obj) (x : Option Obj)
  | link (k : Nat) (a b : Obj) (x : Option Obj)
  | unlink (k : Nat) (a b : Obj)
  | deleteNode (k : Nat) (a : Obj)
  | associateNode (k : Nat) (a : Obj) (id : Nat)
  | associateEdge (k : Nat) (x : Obj) (e : Nat)
  | dissociateNode (k : Nat) (a : Obj)
  | dissociateEdge (k : Nat) (x : Obj)
  | setNodeIndex (k : Nat) (a : Obj) (i : Nat)
  | addNodeIndex (k : Nat) (a : Obj)
  | setEdgeIndex (k : Nat) (x : Obj) (i : Nat)
  | addEdgeIndex (k : Nat) (x : Obj)
  | setEdgeLinking (k : Nat) (a b x : Obj)
  | copy (j k : Nat)
  | drop (k : Nat)
deriving Repr

def OOut.world {α : Type} (w : World) : OOut α → World
  | .ok _ w' => w'
  | .exc _ w' => w'
  | .ub => w

namespace World
/-- the world after the operation, whether it succeeded or raised (an undefined call is not made) -/
def step (w : World) : WOp → World
  | .graph op => (w.graphOp (w.g.applyR op)).2
  | .createNode k a => (w.createNode k a).world w
  | .createNodeFrom k o a x => (w.createNodeFrom k o a x).world w
  | .link k a b x => (w.link k a b x).world w
  | .unlink k a b => (w.unlink k a b).world w
  | .deleteNode k a => (w.deleteNode k a).world w
  | .associateNode k a id => (w.localOp k (fun g o => associateNode g o a id)).world w
  | .associateEdge k x e => (w.localOp k (fun g o => associateEdge g o x e)).world w
  | .dissociateNode k a => (w.localOp k (fun _ o => dissociateNodeO o a)).world w
  | .dissociateEdge k x => (w.localOp k (fun _ o => dissociateEdgeO o x)).world w
  | .setNodeIndex k a i => (w.localOp k (fun _ o => setNodeIndexO o a i)).world w
  | .addNodeIndex k a => (w.localOp k (fun _ o => (addNodeIndexO o a).map (·.2))).world w
  | .setEdgeIndex k x i => (w.localOp k (fun _ o => setEdgeIndexO o x i)).world w
  | .addEdgeIndex k x => (w.localOp k (fun _ o => (addEdgeIndexO o x).map (·.2))).world w
  | .setEdgeLinking k a b x => (w.localOp k (fun g o => setEdgeLinkingO g o a b x)).world w
  | .copy j k => (w.copy j k).world w
  | .drop k => if k = 0 then w else w.drop k

def run (w : World) (ops : List WOp) : World := ops.foldl step w
/-- a fresh observer on a fresh graph -/
def init (directed : Bool) : World := { g := Graph.empty directed }
end World

/-! ### the association invariant, executable -/

/-- the executable form of `OInv` (proved equivalent in `Lemmas/Observer.lean`): the four pairs
of maps are inverse of each other, associated ids are live in the graph; returns the first
clause that fails -/
def Obs.check (g : G) (o : Obs) : Option String :=
  let inv (v : Vec) (m : List (Nat × Nat)) : Bool :=
    (List.range v.length).all (fun i => match Vec.get v i with | some a => AL.find a m == some i | none => true) &&
    m.all (fun p => decide (p.2 < v.length) && Vec.get v p.2 == some p.1)
  if !ascending (AL.keys o.Ng) || !ascending (AL.keys o.Eg) || !ascending (AL.keys o.Ni) || !ascending (AL.keys o.Ei) then some "maps_sorted"
  else if !inv o.gN o.Ng then some "node_object_id_bijective"
  else if !inv o.gE o.Eg then some "edge_object_id_bijective"
  else if !inv o.iN o.Ni then some "node_object_index_bijective"
  else if !inv o.iE o.Ei then some "edge_object_index_bijective"
  else if !(o.Ng.all (fun p => g.hasNode p.2)) then some "associated_node_is_live"
  else if !(o.Eg.all (fun p => g.hasEdge p.2)) then some "associated_edge_is_live"
  else none


/-- **deleted items are forgotten**, executable: every object that was associated in `before`
to a node or edge id that is no longer in graph `g` is in none of the maps of `after` -/
def Obs.forgotOk (g : G) (before after : Obs) : Bool :=
  let gone (v : Vec) (m : List (Nat × Nat)) (a : Obj) : Bool := !(AL.has a m) && !(v.contains (some a))
  before.Ng.all (fun p => g.hasNode p.2 || (gone after.gN after.Ng p.1 && gone after.iN after.Ni p.1)) &&
  before.Eg.all (fun p => g.hasEdge p.2 || (gone after.gE after.Eg p.1 && gone after.iE after.Ei p.1))

/-- **a copy has the same relations**, executable: same object↔id pairs, and the same index for
every associated object -/
def Obs.sameRelations (o c : Obs) : Bool :=
  o.Ng == c.Ng && o.Eg == c.Eg &&
  o.Ng.all (fun p => AL.find p.1 o.Ni == AL.find p.1 c.Ni) && o.Eg.all (fun p => AL.find p.1 o.Ei == AL.find p.1 c.Ei)

end Bpp.Graph
