import BppModel.Rand
/-!
# The process-wide generator as an abstract state machine   (C18, reproducibility)

`RandomTools::DEFAULT_GENERATOR` (RandomTools.h:60-61, RandomTools.cpp:10-11) is the only state the
randomised code of bpp-core has: `setSeed` (RandomTools.h:90-93) overwrites it, every routine reads
and advances it, and nothing else survives a call — every standard-library distribution object is
constructed afresh inside the call that uses it (RandomTools.h:101-175), `ContingencyTableGenerator`
re-initialises `jwork_` at the start of `rcont2` (ContingencyTableGenerator.cpp:68-71).

The model: a state type `σ` (the 624-word state of `std::mt19937`, not modelled further) and, in
`Prims`, what the standard library provides as *functions of the state and the parameters*.  Each
routine of `BppModel/Rand.lean` — there a function of the primitive draws — becomes a function
`σ → result × σ` by taking its draws from the primitives (`exec`).  `run` executes a history of
calls.  That a routine is "a function of (state, arguments) only" is the shape of `exec`; the
property it buys — the same seed gives the same stream, whatever happened before — is
`BppProofs/Props/C18Repro.lean: reproducible`, and `HiddenNormal` below is the machine that a
function-static `std::normal_distribution` would be (its cached second value is state that
`setSeed` does not reset), for which the theorem fails.
-/
namespace Bpp.RandGen
open Bpp Bpp.Rand

/-- the standard library's part, as functions of the generator state -/
structure Prims (σ α : Type) where
  /-- `DEFAULT_GENERATOR.seed(s)` -/
  seed : Nat → σ
  /-- `std::uniform_int_distribution(0, entry-1)(gen)` -/
  uInt : Nat → σ → Nat × σ
  /-- `std::uniform_real_distribution(0, entry)(gen)` -/
  uReal : α → σ → α × σ
  /-- `std::bernoulli_distribution(p)(gen)` -/
  coin : α → σ → Bool × σ
  /-- a fresh `std::normal_distribution(mean, stddev)` called once -/
  normal : α → α → σ → α × σ
  /-- a fresh `std::gamma_distribution(shape, scale)` called once -/
  gamma : α → α → σ → α × σ
  /-- a fresh `std::exponential_distribution(rate)` called once -/
  expo : α → σ → α × σ
  /-- `std::shuffle` of `0..n-1` -/
  shuffle : Nat → σ → List Nat × σ
  /-- the library's quantile function `qBeta(p, alpha, beta)` (pure) -/
  qBeta : α → α → α → α
  /-- the inverse-cdf walk of `rcont2` for one cell (ContingencyTableGenerator.cpp:99-163): reads its
  local variables, `fact_` (a function of `ntot`) and uniform draws — a function of the generator
  state and `(ntot, ia, id, ie)` -/
  rcell : Int → Int → Int → Int → σ → Int × σ

section
variable {σ α : Type} [Scalar α]

/-- `k` successive integer draws -/
def drawInts (P : Prims σ α) (entry : Nat) : Nat → σ → List Nat × σ
  | 0, g => ([], g)
  | k + 1, g =>
    let (d, g1) := P.uInt entry g
    let (ds, g2) := drawInts P entry k g1
    (d :: ds, g2)

/-- `k` successive uniform draws with entry 1 -/
def drawUnits (P : Prims σ α) : Nat → σ → List α × σ
  | 0, g => ([], g)
  | k + 1, g =>
    let (d, g1) := P.uReal (Scalar.ofInt 1) g
    let (ds, g2) := drawUnits P k g1
    (d :: ds, g2)

/-- the cell values one row of `rcont2` draws (no draw once the remaining total is 0) -/
def genRow (P : Prims σ α) (ntot : Int) : Int → Int → List Int → σ → List Int × List Int × σ
  | _, _, [], g => ([], [], g)
  | ia, ic, id :: rest, g =>
    if ic = 0 then ([], id :: rest, g)
    else
      let (v, g1) := P.rcell ntot ia id ic g
      let (ps, jw, g2) := genRow P ntot (ia - v) (ic - id) rest g1
      (v :: ps, (id - v) :: jw, g2)

/-- … and all rows but the last -/
def genRows (P : Prims σ α) (ntot : Int) : Int → List Int → List Int → σ → List (List Int) × σ
  | _, _, [], g => ([], g)
  | jc, jwork, ia :: rows, g =>
    let (ps, jw, g1) := genRow P ntot ia jc jwork g
    let (pss, g2) := genRows P ntot (jc - ia) jw rows g1
    (ps :: pss, g2)

/-- `ContingencyTableGenerator(rows, cols).rcont2()` on the generator: the table is
`Rand.rcont2 rows cols picks` for the cell values the walk chooses -/
def rcont2G (P : Prims σ α) (rows cols : List Nat) (g : σ) : R (List (List Int)) × σ :=
  if rows.length < 2 || cols.length < 2 || rows.sum != cols.sum then (.error .bpp, g)
  else
    let ntot : Int := rows.sum
    let (picks, g') := genRows P ntot ntot ((cols.map Int.ofNat).dropLast) ((rows.map Int.ofNat).dropLast) g
    (rcont2 rows cols picks, g')

/-- `nb` tables and the statistic of each (`statOf` is the chi-square statistic against the
expected counts: floating point, a parameter here) -/
def replicateStats (P : Prims σ α) (rows cols : List Nat) (statOf : List (List Int) → α) : Nat → σ → R (List α) × σ
  | 0, g => (.ok [], g)
  | n + 1, g =>
    match rcont2G P rows cols g with
    | (.error e, g1) => (.error e, g1)
    | (.ok t, g1) =>
      match replicateStats P rows cols statOf n g1 with
      | (.error e, g2) => (.error e, g2)
      | (.ok l, g2) => (.ok (statOf t :: l), g2)

/-- the calls of the modelled API -/
inductive Call (α : Type)
  | setSeed (s : Nat)
  | uniform (entry : α)
  | uniformInt (entry : Nat)
  | flipCoin (p : α)
  | randGaussian (mean variance : α)
  | randGamma1 (alpha : α)
  | randGamma2 (alpha beta : α)
  | randBeta (alpha beta : α)
  | randExponential (mean : α)
  | pickOne (v : List Int) (replace : Bool)
  | pickOneConst (v : List Int)
  | pickOneW (v : List Int) (w : List α) (replace : Bool)
  | pickOneWConst (v : List Int) (w : List α)
  | getSample (vin : List Int) (k : Nat) (replace : Bool)
  | getSampleW (vin : List Int) (w : List α) (k : Nat) (replace : Bool)
  | pickFromCumSum (w : List α)
  | randMultinomial (n : Nat) (probs : List α)
  | discreteRand (dist : List (α × α))
  | hmmSample (eq : List α) (rows : List (List α)) (size : Nat)
  | rcont2 (rows cols : List Nat)
  | contingencyTest (rows cols : List Nat) (stat : α) (statOf : List (List Int) → α) (nb : Nat)

/-- what a call returns -/
inductive Out (α : Type)
  | unit
  | scalar (x : α)
  | nat (n : Nat)
  | bool (b : Bool)
  | raised                                   -- `giveIntRandomNumberBetweenZeroAndEntry(0)`
  | pick (r : R (Int × List Int))
  | pickW (r : R (Int × List Int × List α))
  | elem (r : R Int)
  | ints (r : R (List Int))
  | index (r : R Nat)
  | nats (r : R (List Nat))
  | table (r : R (List (List Int)))
  | pvalue (r : R α)

/-- one call: result and next generator state — a function of the state and the arguments only.
The number of primitive draws of each routine is the one `Drive/C18.lean` checks against the
recorded draws (`draw-mismatch`). -/
def exec (P : Prims σ α) (c : Call α) (g : σ) : Out α × σ :=
  match c with
  | .setSeed s => (.unit, P.seed s)
  | .uniform entry => let (x, g') := P.uReal entry g; (.scalar x, g')
  | .uniformInt entry => if entry = 0 then (.raised, g) else let (x, g') := P.uInt entry g; (.nat x, g')
  | .flipCoin p => let (b, g') := P.coin p g; (.bool b, g')
  -- RandomTools.h:160-164: `normal_distribution dis(mean, sqrt(variance)); return dis(DEFAULT_GENERATOR)`
  | .randGaussian mean variance => let (x, g') := P.normal mean (Scalar.sqrt variance) g; (.scalar x, g')
  | .randGamma1 a => let (x, g') := P.gamma a (Scalar.ofInt 1) g; (.scalar x, g')
  | .randGamma2 a b => let (x, g') := P.gamma a (Scalar.ofInt 1 / b) g; (.scalar x, g')
  -- RandomTools.cpp: `qBeta(giveRandomNumberBetweenZeroAndEntry(1.0), alpha, beta)`
  | .randBeta a b => let (u, g') := P.uReal (Scalar.ofInt 1) g; (.scalar (P.qBeta u a b), g')
  | .randExponential mean => let (x, g') := P.expo (Scalar.ofInt 1 / mean) g; (.scalar x, g')
  | .pickOne v replace =>
    if v.isEmpty then (.pick (.error .empty), g)
    else let (pos, g') := P.uInt v.length g; (.pick (Rand.pickOne v replace pos), g')
  | .pickOneConst v =>
    if v.isEmpty then (.elem (.error .empty), g)
    else let (pos, g') := P.uInt v.length g; (.elem (Rand.pickOneConst v pos), g')
  | .pickOneW v w replace =>
    if v.isEmpty then (.pickW (.error .empty), g)
    else let (u, g') := P.uReal (Scalar.ofInt 1) g; (.pickW (Rand.pickOneW v w replace u), g')
  | .pickOneWConst v w =>
    if v.isEmpty then (.elem (.error .empty), g)
    else let (u, g') := P.uReal (Scalar.ofInt 1) g; (.elem (Rand.pickOneWConst v w u), g')
  | .getSample vin k replace =>
    if vin.length < k && !replace then (.ints (.error .index), g)
    else if replace then
      if vin.isEmpty then (.ints (Rand.getSample vin k true [] []), g)
      else let (ds, g') := drawInts P vin.length k g; (.ints (Rand.getSample vin k true ds []), g')
    else let (hat, g') := P.shuffle vin.length g; (.ints (Rand.getSample vin k false [] hat), g')
  | .getSampleW vin w k replace =>
    if vin.length < k && !replace then (.ints (.error .index), g)
    else if vin.isEmpty then (.ints (Rand.getSampleW vin w k replace []), g)
    else let (us, g') := drawUnits P k g; (.ints (Rand.getSampleW vin w k replace us), g')
  | .pickFromCumSum w =>
    if w.isEmpty then (.index (.error .empty), g)
    else let (u, g') := P.uReal (Scalar.ofInt 1) g; (.index (Rand.pickFromCumSum w u), g')
  | .randMultinomial n probs =>
    if Rand.multinomialRaises probs n then (.nats (.error .bpp), g)      -- raises before drawing
    else let (us, g') := drawUnits P n g; (.nats (Rand.randMultinomial probs n us), g')
  | .discreteRand dist => let (u, g') := P.uReal (Scalar.ofInt 1) g; (.scalar (Rand.dRand dist u), g')
  | .hmmSample eq rows size => let (us, g') := drawUnits P size g; (.nats (Rand.hmmSample eq rows size us), g')
  | .rcont2 rows cols => let (t, g') := rcont2G P rows cols g; (.table t, g')
  | .contingencyTest rows cols stat statOf nb =>
    match replicateStats P rows cols statOf nb g with
    | (.error e, g') => (.pvalue (.error e), g')
    | (.ok sims, g') => (.pvalue (Rand.mcPValue stat nb sims), g')

/-- a history of calls: the outputs, in order, and the final generator state -/
def run (P : Prims σ α) : List (Call α) → σ → List (Out α) × σ
  | [], g => ([], g)
  | c :: cs, g =>
    let (o, g1) := exec P c g
    let (os, g2) := run P cs g1
    (o :: os, g2)

end

/-! ## what is observed on the implementation

`repro1 <routine> <seed> <pre1> <pre2>` runs the two histories
`setSeed(other); routine × pre; setSeed(seed); routine × 3` with `pre = pre1` and `pre = pre2` and
reports the values observed after `setSeed(seed)` in each and whether `DEFAULT_GENERATOR` ended in
the same state.  `reproObserved` is the conclusion of `reproducible` on these two executions. -/
def reproObserved (obsA obsB : List String) (sameFinalState : Bool) : Bool :=
  obsA == obsB && sameFinalState && !obsA.isEmpty

/-! ## the machine with a function-static normal distribution (what the code must NOT be)

`static std::normal_distribution<double> dis(0., 1.)` keeps the second value of each generated
pair inside the object: state that lives next to the generator and that `setSeed` does not reset. -/
structure HiddenNormal (σ α : Type) where
  gen : σ
  saved : Option α

/-- `normalPair`: the polar method produces two standard-normal values per round -/
def HiddenNormal.randGaussian {σ α : Type} [Scalar α] (normalPair : σ → (α × α) × σ) (mean variance : α)
    (s : HiddenNormal σ α) : α × HiddenNormal σ α :=
  match s.saved with
  | some z => (mean + Scalar.sqrt variance * z, ⟨s.gen, none⟩)
  | none =>
    let ((z1, z2), g') := normalPair s.gen
    (mean + Scalar.sqrt variance * z1, ⟨g', some z2⟩)

/-- `setSeed` of that machine: only the generator is re-seeded -/
def HiddenNormal.setSeed {σ α : Type} (seed : Nat → σ) (n : Nat) (s : HiddenNormal σ α) : HiddenNormal σ α :=
  ⟨seed n, s.saved⟩

/-- a toy interpretation of the primitives (a counter as generator), for examples -/
def counterPrims : Prims Nat Rat where
  seed := fun s => 10 * s
  uInt := fun n g => (g % n, g + 1)
  uReal := fun e g => (e / ((g + 2 : Nat) : Rat), g + 1)
  coin := fun _ g => (g % 2 == 0, g + 1)
  normal := fun m _ g => (m, g + 2)
  gamma := fun a _ g => (a, g + 3)
  expo := fun r g => (r, g + 1)
  shuffle := fun n g => (List.range n, g + n)
  qBeta := fun u _ _ => u
  rcell := fun _ _ _ _ g => (0, g + 1)


end Bpp.RandGen
