import BppModel.TreeObs
import BppModel.ObserverExt
/-
More of src/Bpp/Graph/AssociationTreeGraphImplObserver.h on the model of `BppModel/TreeObs.lean`:

* the copy constructor (:56), `clone()` (:93) and `operator=` (:75): all three hand over to the base class
  `AssociationGraphImplObserver` (C14: `World.copy`, `World.clone`, `World.assign`): the copy observes the
  **same** tree graph (the `shared_ptr` is copied, AssociationGraphImplObserver.h:205), holds fresh objects
  with the labels of the source, and is registered with the graph.  The tree graph — hence the cached
  validity flag — is not touched;
* `removeSon(nodeObject, sonObject)` (:260), `removeSons(nodeObject)` (:252): the id-level calls of the tree
  container with the observers told;
* the object-level queries that map ids back to objects: `hasFather` (:151), `getNumberOfSons` (:227),
  `getLeavesUnderNode` (:238), `getSubtreeNodes` (:372), `getSubtreeEdges` (:377),
  `getNodePathBetweenTwoNodes` (:352), `getEdgePathBetweenTwoNodes` (:357), `MRCA` (:397)
  (`getNodesFromGraphid` / `getEdgesFromGraphid` skip the ids that carry no object).
-/
namespace Bpp.Graph
/-- after a successful removal of the relation `a -> b` (either way round when undirected): that relation is gone from
the edge table and every other edge, and every node, is still there (the predicate `removes_relation` of the driver) -/
def relationRemoved (before after : G) (a b : Nat) : Bool :=
  let hit (e : Nat × Nat × Nat) : Bool := (e.2.1 == a && e.2.2 == b) || (!before.directed && e.2.1 == b && e.2.2 == a)
  after.edges == before.edges.filter (fun e => !hit e) && AL.keys after.nodes == AL.keys before.nodes

namespace TW

/-- an operation of the base observer that does not touch the graph -/
def ofObsOnly (tw : TW) (r : OOut Unit) : WRes × TW :=
  match r with
  | .ok _ w' => (.ok, { tw with w := w' })
  | .exc k w' => (.exc k, { tw with w := w' })
  | .ub => (.ub, tw)

/-- the copy constructor: slot `k` becomes a copy of observer `j` -/
def copyObs (tw : TW) (j k : Nat) : WRes × TW := tw.ofObsOnly (tw.w.copy j k)
/-- `clone()` -/
def cloneObs (tw : TW) (j k : Nat) : WRes × TW := tw.ofObsOnly (tw.w.clone j k)
/-- `operator=` -/
def assignObs (tw : TW) (j k : Nat) : WRes × TW := tw.ofObsOnly (tw.w.assign j k)

/-- `setRoot(nodeObject)` (AssociationGraphImplObserver.h:718, inherited): `getGraph()->setRoot(getNodeGraphid(newRoot))`;
`setRoot` ends with `topologyHasChanged_()` -/
def setRootObj (tw : TW) (k : Nat) (a : Obj) : WRes × TW := tw.ofO (tw.w.setRootObj k a) true

/-- `TreeGraphImpl::removeSon(node, son)` (TreeGraphImpl.h:517) with the observers told -/
def removeSonG (tw : TW) (n s : Nat) : GOut Unit × TW := touch (unit (tw.liftW (tw.w.g.unlink n s)))

/-- `removeSon(nodeObject, sonObject)` (:260) -/
def removeSon (tw : TW) (k : Nat) (a s : Obj) : WRes × TW :=
  match tw.w.getObs k with
  | none => (.ub, tw)
  | some o =>
    match AL.find a o.Ng, AL.find s o.Ng with
    | some ia, some is => ofG (tw.removeSonG ia is)
    | _, _ => (.exc .bpp, tw)

/-- `removeSons(nodeObject)` (:252): the removed sons as objects — read from the maps as they are
*after* the removals (`getNodesFromGraphid` is applied to the returned ids) -/
def removeSons (tw : TW) (k : Nat) (a : Obj) : Option (List Obj) × WRes × TW :=
  match tw.w.getObs k with
  | none => (none, .ub, tw)
  | some o =>
    match AL.find a o.Ng with
    | none => (none, .exc .bpp, tw)
    | some ia =>
      match tw.w.g.outNeighbors ia with
      | none => (none, .exc .bpp, tw)
      | some sons =>
        let r := sons.foldl (fun acc s => andThen acc (fun _ t' => t'.removeSonG ia s)) (.ok () tw.w.g, tw)
        match r.1 with
        | .ok _ _ =>
          match r.2.w.getObs k with
          | some o' => (some (o'.nodesFromGids sons), .ok, r.2)
          | none => (none, .ub, r.2)
        | .exc _ => (none, .exc .bpp, r.2)

/-! ### object-level queries of a rooted tree -/

def showIds (f : List Nat → List Obj) : TRes (List Nat) → TRes (List Obj)
  | .ok l => .ok (f l)
  | .exc => .exc
  | .fuel => .fuel
  | .ub => .ub

/-- a list query on the id of `a`, mapped back to node / edge objects; an unknown object raises -/
def listQuery (o : Obs) (a : Obj) (edges : Bool) (q : Nat → TRes (List Nat)) : TRes (List Obj) :=
  match AL.find a o.Ng with
  | none => .exc
  | some ia => showIds (if edges then o.edgesFromGids else o.nodesFromGids) (q ia)

def leavesUnderObj (tw : TW) (o : Obs) (a : Obj) : TRes (List Obj) := listQuery o a false (T.leavesUnderQ tw.w.g)
def subtreeNodesObj (tw : TW) (o : Obs) (a : Obj) : TRes (List Obj) := listQuery o a false (fun ia => (tw.toT.getSubtree false ia).1)
def subtreeEdgesObj (tw : TW) (o : Obs) (a : Obj) : TRes (List Obj) := listQuery o a true (fun ia => (tw.toT.getSubtree true ia).1)

def nodePathObj (tw : TW) (o : Obs) (a b : Obj) : TRes (List Obj) :=
  match AL.find a o.Ng, AL.find b o.Ng with
  | some ia, some ib => showIds o.nodesFromGids (T.nodePath tw.w.g ia ib true)
  | _, _ => .exc

def edgePathObj (tw : TW) (o : Obs) (a b : Obj) : TRes (List Obj) :=
  match AL.find a o.Ng, AL.find b o.Ng with
  | some ia, some ib => showIds o.edgesFromGids (T.edgePath tw.w.g ia ib)
  | _, _ => .exc

/-- `MRCA(vector of node objects)` (:397): `some none` = the node has no object -/
def mrcaObj (tw : TW) (o : Obs) (l : List Obj) : TRes (Option Obj) :=
  match l.mapM (fun a => AL.find a o.Ng) with
  | none => .exc
  | some ids =>
    match T.mrca tw.w.g ids with
    | .ok m => .ok (o.nodeFromGid m)
    | .exc => .exc
    | .fuel => .fuel
    | .ub => .ub

def hasFatherObj (tw : TW) (o : Obs) (a : Obj) : Option Bool := (AL.find a o.Ng).bind (T.hasFather tw.w.g)
def nbSonsObj (tw : TW) (o : Obs) (a : Obj) : Option Nat := (AL.find a o.Ng).bind (fun ia => RowQ.nbOut (tw.w.g.rowOf ia))

end TW

/-- histories over the members of `TWOp` and the ones added here -/
inductive TWOpX where
  | base (op : TWOp)
  | copy (j k : Nat)
  | clone (j k : Nat)
  | assign (j k : Nat)
  | removeSon (k : Nat) (a s : Obj)
  | removeSons (k : Nat) (a : Obj)
  | setRoot (k : Nat) (a : Obj)
deriving Repr

namespace TW
def stepX (tw : TW) : TWOpX → TW
  | .base op => tw.step op
  | .copy j k => (tw.copyObs j k).2
  | .clone j k => (tw.cloneObs j k).2
  | .assign j k => (tw.assignObs j k).2
  | .removeSon k a s => (tw.removeSon k a s).2
  | .removeSons k a => (tw.removeSons k a).2.2
  | .setRoot k a => (tw.setRootObj k a).2
def runX (tw : TW) (ops : List TWOpX) : TW := ops.foldl stepX tw
end TW

end Bpp.Graph
