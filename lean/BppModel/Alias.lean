import BppModel.ParamList
/-
Model of `bpp::AbstractParameterAliasable` (src/Bpp/Numeric/AbstractParameterAliasable.{h,cpp}),
of its inner `AliasParameterListener`, and of the listener side of `bpp::Parameter`
(src/Bpp/Numeric/Parameter.{h,cpp}: `listeners_`, `fireParameterValueChanged`).           (C03)

Core Lean only; built on the heap model of C02 (`Bpp.ParamList`: parameter objects `Par` in a
`Store`, lists as lists of object ids) so that sharing (the independent list shares the owner's
parameter objects; a registry entry and a parameter share one listener object) and cloning
(copy construction, assignment) are explicit:

* `World.heap`   the `Parameter` objects (name, value, constraint; precision 0 as in C02);
* `World.lsn i`  `Parameter::listeners_` of object `i`: ids of listener objects, in vector order;
* `World.lis l`  the `AliasParameterListener` object `l` (`id_`, `alias_`, `pl_`, `name_`, `from_`);
                 `pl_` is the slot of the owner whose `parameters_` it points at;
* `World.objs k` the `AbstractParameterAliasable` in slot `k` (`parameters_`,
                 `independentParameters_`, `aliasListenersRegister_` as a key-sorted list, `prefix_`).

The functions transcribe the code as it is after the repairs recorded in findings/C03.json;
the code as found is kept in `namespace Legacy` for the witness theorems.
`Parameter::setValue` re-enters itself through the listeners; the model takes fuel and ends in
the explicit outcome `Err.hang` when it runs out (theorems: it never does).  Indexing a
parameter vector out of range / through a missing owner is the explicit outcome `Err.ub`.
-/
namespace Bpp.Alias
open Bpp.ParamList (Bnd Con Par Store ObjId nameOf find? hasParameter names startsWith)

/-! ## Outcomes -/

inductive Err where
  | constraint   -- ConstraintException
  | notfound     -- ParameterNotFoundException
  | bpp          -- Exception / ParameterException
  | ub           -- vector indexed out of range, dangling `pl_`
  | hang         -- the model ran out of fuel: the C++ would not return
  deriving DecidableEq, Inhabited, Repr

/-! ## Interval intersection on the minimal constraint of C02 (Constraints.h:276-325,
`IntervalConstraint::operator&`, repaired code of C01; precision is not part of `Con`) -/

/-- `a < b` on doubles that may be infinite -/
def Bnd.lt : Bnd → Bnd → Bool
  | .negInf, .negInf => false
  | .negInf, _ => true
  | .fin _, .negInf => false
  | .fin x, .fin y => decide (x < y)
  | .fin _, .posInf => true
  | .posInf, _ => false

/-- `this->operator&(pi)` with `this = c`, `pi = d` -/
def Con.inter (c d : Con) : Con :=
  let lo : Bnd × Bool :=
    if Bnd.lt c.lo d.lo then (d.lo, d.inclLo)
    else if Bnd.lt d.lo c.lo then (c.lo, c.inclLo)
    else (c.lo, c.inclLo && d.inclLo)
  let hi : Bnd × Bool :=
    if Bnd.lt d.hi c.hi then (d.hi, d.inclHi)
    else if Bnd.lt c.hi d.hi then (c.hi, c.inclHi)
    else (c.hi, c.inclHi && d.inclHi)
  ⟨lo.1, hi.1, lo.2, hi.2⟩

/-- `Parameter::setConstraint(c)` for a non-null `c` (Parameter.cpp:94-101) -/
def parSetConstraint (p : Par) (c : Con) : Except Err Par :=
  if !c.accepts p.value then .error .constraint else .ok { p with con := some c }

/-! ## Objects -/

/-- `AliasParameterListener` (AbstractParameterAliasable.h:20-92) -/
structure Lis where
  id : String
  /-- `alias_`: position of the aliased parameter in `*pl_` -/
  alias : Nat
  /-- `pl_`: slot of the owner whose `parameters_` is pointed at -/
  pl : Nat
  /-- `name_`: the name the aliased parameter is expected to carry -/
  name : String
  /-- `from_`: name (without namespace) of the parameter it is attached to -/
  src : String
  deriving DecidableEq, Inhabited, Repr

/-- `AbstractParameterAliasable` (+ the `AbstractParametrizable` base) -/
structure Obj where
  params : List ObjId
  indep : List ObjId
  /-- `std::map<string, shared_ptr<AliasParameterListener>>`, sorted by key -/
  reg : List (String × Nat)
  pre : String
  deriving DecidableEq, Inhabited, Repr

structure World where
  heap : Store
  lsn : ObjId → List Nat
  lis : Nat → Lis
  lnext : Nat
  objs : Nat → Option Obj

def World.init : World := ⟨Store.empty, fun _ => [], fun _ => default, 0, fun _ => none⟩

/-- write the value of one parameter object -/
def World.putValue (w : World) (i : ObjId) (v : Rat) : World :=
  { w with heap := w.heap.put i { w.heap.get i with value := v } }
def World.putPar (w : World) (i : ObjId) (p : Par) : World := { w with heap := w.heap.put i p }
def World.setObj (w : World) (k : Nat) (o : Obj) : World :=
  { w with objs := fun j => if j = k then some o else w.objs j }
def World.setLsn (w : World) (i : ObjId) (l : List Nat) : World :=
  { w with lsn := fun j => if j = i then l else w.lsn j }
def World.setLis (w : World) (l : Nat) (x : Lis) : World :=
  { w with lis := fun j => if j = l then x else w.lis j }
/-- `new AliasParameterListener(...)` / `clone()` -/
def World.allocLis (w : World) (x : Lis) : World × Nat :=
  ({ w with lis := fun j => if j = w.lnext then x else w.lis j, lnext := w.lnext + 1 }, w.lnext)
/-- `new Parameter(...)` / `clone()`: the copy constructor copies `listeners_` (Parameter.cpp:45-53) -/
def World.allocPar (w : World) (p : Par) (ls : List Nat) : World × ObjId :=
  let a := w.heap.alloc p
  ({ w with heap := a.1, lsn := fun j => if j = a.2 then ls else w.lsn j }, a.2)

/-- a world and what the call raised (the world is as the exception left it) -/
structure WR where
  w : World
  err : Option Err := none

/-! ## `Parameter::setValue` with `fireParameterValueChanged` (Parameter.cpp:72-83, Parameter.h:290-296)
and `AliasParameterListener::parameterValueChanged` (AbstractParameterAliasable.h:71-77) -/

/-- the loop `for (auto listener : listeners_) listener->parameterValueChanged(event)` of the
parameter object `src`; `k` is `Parameter::setValue` (one unit of fuel less) -/
def fireList (k : World → ObjId → Rat → WR) (src : ObjId) : World → List Nat → WR
  | w, [] => { w := w }
  | w, l :: rest =>
    let L := w.lis l
    match w.objs L.pl with
    | none => { w := w, err := some .ub }
    | some o =>
      match o.params[L.alias]? with          -- `Parameter* p = &(*pl_)[alias_];`
      | none => { w := w, err := some .ub }
      | some t =>
        if nameOf w.heap t != L.name then { w := w, err := some .bpp }
        else
          -- `p->setValue(event.parameter()->Parameter::getValue())`: the source's value *now*
          let r := k w t (w.heap.get src).value
          match r.err with
          | some e => { w := r.w, err := some e }
          | none => fireList k src r.w rest

/-- `Parameter::setValue(v)` on object `i`, precision 0 -/
def setV : Nat → World → ObjId → Rat → WR
  | 0, w, _, _ => { w := w, err := some .hang }
  | f + 1, w, i, v =>
    if v = (w.heap.get i).value then { w := w }
    else if (w.heap.get i).rejects v then { w := w, err := some .constraint }
    else fireList (setV f) i (w.putValue i v) (w.lsn i)

/-- fuel that is always enough (theorem `setV_no_hang`): one more than the number of parameter
objects ever allocated -/
def World.fuel (w : World) : Nat := w.heap.next + 1

def setValue (w : World) (i : ObjId) (v : Rat) : WR := setV w.fuel w i v

/-! ## `ParameterList` members that write values, now with firing (ParameterList.cpp) -/

/-- `setParameterValue(name, value)` (335-339) -/
def setParameterValue (w : World) (l : List ObjId) (n : String) (v : Rat) : WR :=
  match find? w.heap l n with
  | none => { w := w, err := some .notfound }
  | some i => setValue w i v

/-- `shareParameter(shared_ptr)` (276-282): a name collision is a value update -/
def shareParameter (w : World) (l : List ObjId) (i : ObjId) : WR × List ObjId :=
  if hasParameter w.heap l (nameOf w.heap i) then
    (setParameterValue w l (nameOf w.heap i) (w.heap.get i).value, l)
  else ({ w := w }, l ++ [i])

/-- `shareParameters(params)` (325-331) -/
def shareParameters (w : World) (l : List ObjId) : List ObjId → WR × List ObjId
  | [] => ({ w := w }, l)
  | i :: rest =>
    let r := shareParameter w l i
    match r.1.err with
    | some _ => r
    | none => shareParameters r.1.w r.2 rest

def liftErr : Option ParamList.Err → Option Err
  | none => none
  | some .constraint => some .constraint
  | some .notfound => some .notfound
  | some .index => some .ub
  | some .bpp => some .bpp

/-- second pass of `setParametersValues` (376-386) -/
def applySome (l : List ObjId) : World → List (String × Rat) → WR
  | w, [] => { w := w }
  | w, (n, v) :: rest =>
    match find? w.heap l n with
    | none => applySome l w rest
    | some t =>
      let r := setValue w t v
      match r.err with
      | some e => { w := r.w, err := some e }
      | none => applySome l r.w rest

/-- first pass of the source-iterating setters (365-374, 423-432) on a source given by value -/
def checkSome (w : World) (l : List ObjId) : List (String × Rat) → Option Err
  | [] => none
  | (n, v) :: rest =>
    match find? w.heap l n with
    | none => checkSome w l rest
    | some t => if (w.heap.get t).rejects v then some .constraint else checkSome w l rest

/-- `setParametersValues(params)` (363-387); the source list is given by (name, value) -/
def setParametersValues (w : World) (l : List ObjId) (src : List (String × Rat)) : WR :=
  match checkSome w l src with
  | some e => { w := w, err := some e }
  | none => applySome l w src

/-- second pass of `matchParametersValues` (434-453): returns also the `ch` flag -/
def matchSome (l : List ObjId) : World → List (String × Rat) → WR × Bool
  | w, [] => ({ w := w }, false)
  | w, (n, v) :: rest =>
    match find? w.heap l n with
    | none => matchSome l w rest
    | some t =>
      if (w.heap.get t).value ≠ v then
        let r := setValue w t v
        match r.err with
        | some e => ({ w := r.w, err := some e }, true)
        | none => let q := matchSome l r.w rest; (q.1, true)
      else matchSome l w rest

/-- `matchParametersValues(params)` (421-454) -/
def matchParametersValues (w : World) (l : List ObjId) (src : List (String × Rat)) : WR × Bool :=
  match checkSome w l src with
  | some e => ({ w := w, err := some e }, false)
  | none => matchSome l w src

/-- `params.parameter(name)` on a source given by value: the first entry with the name -/
def srcFind? (src : List (String × Rat)) (n : String) : Option Rat :=
  (src.find? (fun e => e.1 == n)).map (·.2)

/-- first pass of `setAllParametersValues` (346-351): iterates over *this* list -/
def checkAll (w : World) (src : List (String × Rat)) : List ObjId → Option Err
  | [] => none
  | i :: rest =>
    match srcFind? src (nameOf w.heap i) with
    | none => some .notfound
    | some v => if (w.heap.get i).rejects v then some .constraint else checkAll w src rest

/-- second pass of `setAllParametersValues` (354-358) -/
def applyAll (src : List (String × Rat)) : World → List ObjId → WR
  | w, [] => { w := w }
  | w, i :: rest =>
    match srcFind? src (nameOf w.heap i) with
    | none => { w := w, err := some .notfound }
    | some v =>
      let r := setValue w i v
      match r.err with
      | some e => { w := r.w, err := some e }
      | none => applyAll src r.w rest

/-- `setAllParametersValues(params)` (343-359) -/
def setAllParametersValues (w : World) (l : List ObjId) (src : List (String × Rat)) : WR :=
  match checkAll w src l with
  | some e => { w := w, err := some e }
  | none => applyAll src w l

/-! ## The key-sorted registry (`std::map<std::string, …>`) -/

def mapInsert {β : Type} (k : String) (v : β) : List (String × β) → List (String × β)
  | [] => [(k, v)]
  | (k', v') :: t =>
    if k < k' then (k, v) :: (k', v') :: t
    else if k = k' then (k, v) :: t
    else (k', v') :: mapInsert k v t

def mapErase {β : Type} (k : String) (m : List (String × β)) : List (String × β) :=
  m.filter (fun e => e.1 != k)

def mapFind? {β : Type} (k : String) (m : List (String × β)) : Option β :=
  (m.find? (fun e => e.1 == k)).map (·.2)

/-- the listener id of "`p2` follows `p1`" (AbstractParameterAliasable.cpp:88) -/
def aliasId (p1 p2 : String) : String := "__alias_" ++ p2 ++ "_to_" ++ p1

/-- `getParameterNameWithoutNamespace` (AbstractParametrizable.cpp:28-34) -/
def stripNs (pre name : String) : String :=
  if startsWith name pre then String.ofList (name.toList.drop pre.length) else name

/-! ## Queries (AbstractParameterAliasable.cpp:229-269, 307-321) -/

/-- `AliasParameterListener::getAlias()`: `(*pl_)[alias_].getName()` -/
def lisAlias (w : World) (L : Lis) : Except Err String :=
  match w.objs L.pl with
  | none => .error .ub
  | some o =>
    match o.params[L.alias]? with
    | none => .error .ub
    | some t => .ok (nameOf w.heap t)

/-- `getFrom(name)` (307-321): `from_` of the first registered listener whose `name_` is `name` -/
def getFrom (w : World) (o : Obj) (name : String) : String :=
  match o.reg.find? (fun e => (w.lis e.2).name == name) with
  | some e => (w.lis e.2).src
  | none => ""

/-- `getAlias(name)` (229-249, repaired), recursive; `hang` = out of fuel (the C++ recursion would
not end).  `repaired = true`: the chain is followed under the name without namespace (the name
`from_` holds); `false`: the code as found recursed on the full name. -/
def getAliasG (repaired : Bool) : Nat → World → Obj → String → Except Err (List String)
  | 0, _, _, _ => .error .hang
  | f + 1, w, o, name =>
    o.reg.foldl (fun (acc : Except Err (List String)) e =>
      match acc with
      | .error x => .error x
      | .ok aliases =>
        let L := w.lis e.2
        if L.src == name then
          match lisAlias w L with
          | .error x => .error x
          | .ok alias =>
            let next := if repaired then stripNs o.pre alias else alias
            if next != name then
              match getAliasG repaired f w o next with
              | .error x => .error x
              | .ok chain => .ok (aliases ++ [alias] ++ chain)
            else .ok (aliases ++ [alias])
        else .ok aliases) (.ok [])

def getAlias : Nat → World → Obj → String → Except Err (List String) := getAliasG true

/-- `getAliases()` (252-269): a key-sorted map alias ↦ from -/
def getAliases (w : World) (o : Obj) : Except Err (List (String × String)) :=
  o.reg.foldl (fun (acc : Except Err (List (String × String))) e =>
    match acc with
    | .error x => .error x
    | .ok m =>
      let name := (w.lis e.2).src
      match getAlias (o.reg.length + 1) w o name with
      | .error x => .error x
      | .ok al => .ok (al.foldl (fun m a => mapInsert a name m) m)) (.ok [])

/-! ## `aliasParameters(p1, p2)` (AbstractParameterAliasable.cpp:75-129, repaired) -/

/-- the loop `for (source = p1; source != ""; source = getFrom(ns + source)) if (source == p2) throw`
(91-95): `some true` = `p2` met, `some false` = chain ended, `none` = out of fuel -/
def followsLoop (w : World) (o : Obj) (p2 : String) : Nat → String → Option Bool
  | 0, _ => none
  | f + 1, source =>
    if source = "" then some false
    else if source = p2 then some true
    else followsLoop w o p2 f (getFrom w o (o.pre ++ source))

/-- the constraint part as found (99-116 before the repair): which constraints `p1` / `p2` end with;
with two different constraints `p2` was narrowed first, and `p1`'s `setConstraint` could then raise -/
def aliasConstraintsL (w : World) (i1 i2 : ObjId) : WR :=
  let q1 := w.heap.get i1
  let q2 := w.heap.get i2
  match q1.con, q2.con with
  | none, none => { w := w }
  | none, some c2 =>
    match parSetConstraint q1 c2 with
    | .error e => { w := w, err := some e }
    | .ok q1' => { w := w.putPar i1 q1' }
  | some _, none => { w := w }
  | some c1, some c2 =>
    -- descriptions compared as strings; equal descriptions = equal bounds and flags (see props/C03.json)
    if c1 ≠ c2 then
      let nc := Con.inter c2 c1
      match parSetConstraint q2 nc with
      | .error e => { w := w, err := some e }
      | .ok q2' =>
        let w1 := w.putPar i2 q2'
        match parSetConstraint (w1.heap.get i1) nc with
        | .error e => { w := w1, err := some e }
        | .ok q1' => { w := w1.putPar i1 q1' }
    else { w := w }

/-- the test added by the repair (114-119): both constrained, descriptions different, and one of the
two values outside the intersection -/
def aliasGuard (w : World) (i1 i2 : ObjId) : Bool :=
  match (w.heap.get i1).con, (w.heap.get i2).con with
  | some c1, some c2 =>
    decide (c1 ≠ c2) && (!(Con.inter c2 c1).accepts (w.heap.get i2).value || !(Con.inter c2 c1).accepts (w.heap.get i1).value)
  | _, _ => false

/-- the constraint part (99-123, repaired): both values are tested against the intersection before
either parameter is modified (`ConstraintException`, nothing changed); then as before -/
def aliasConstraints (w : World) (i1 i2 : ObjId) : WR :=
  if aliasGuard w i1 i2 then { w := w, err := some .constraint } else aliasConstraintsL w i1 i2

/-- the cycle test of the pair form: `repaired = true` is the loop over `getFrom`,
`repaired = false` the test as found (only the reverse direct link `__alias_p1_to_p2`) -/
def cycleTest (repaired : Bool) (w : World) (o : Obj) (p1 p2 : String) : Option Bool :=
  if repaired then
    -- the listener id must not be in use already (repair: names containing "_to_" can give two different
    -- links the same id); same outcome as a cycle: `Exception`, nothing changed
    if (mapFind? (aliasId p1 p2) o.reg).isSome then some true
    else followsLoop w o p2 (o.reg.length + 2) p1
  else some ((mapFind? (aliasId p2 p1) o.reg).isSome)

def aliasPairG (repaired : Bool) (w : World) (k : Nat) (p1 p2 : String) : WR :=
  match w.objs k with
  | none => { w := w, err := some .ub }
  | some o0 =>
    -- "In case this is the first time we call this method" (77-79)
    let r0 : WR × List ObjId :=
      if o0.params.length > 0 && o0.indep.length == 0 then shareParameters w [] o0.params
      else ({ w := w }, o0.indep)
    let o : Obj := { o0 with indep := r0.2 }
    let w0 := r0.1.w.setObj k o
    match r0.1.err with
    | some e => { w := w0, err := some e }
    | none =>
    match find? w0.heap o.params (o.pre ++ p1), find? w0.heap o.params (o.pre ++ p2) with
    | none, _ => { w := w0, err := some .notfound }
    | some _, none => { w := w0, err := some .notfound }
    | some i1, some i2 =>
      if !hasParameter w0.heap o.indep (o.pre ++ p2) then { w := w0, err := some .bpp }
      else
        match cycleTest repaired w0 o p1 p2 with
        | none => { w := w0, err := some .hang }
        | some true => { w := w0, err := some .bpp }
        | some false =>
          let rc := aliasConstraints w0 i1 i2
          match rc.err with
          | some e => { w := rc.w, err := some e }
          | none =>
            let w1 := rc.w
            -- `make_shared<AliasParameterListener>(id, whichParameterHasName(ns + p2), &getParameters_(), p1)`
            match o.params.findIdx? (fun i => nameOf w1.heap i == o.pre ++ p2) with
            | none => { w := w1, err := some .notfound }
            | some pos =>
              let nm := match o.params[pos]? with
                | some t => nameOf w1.heap t
                | none => ""
              let a := w1.allocLis { id := aliasId p1 p2, alias := pos, pl := k, name := nm, src := p1 }
              let w2 := a.1
              let o' : Obj := { o with reg := mapInsert (aliasId p1 p2) a.2 o.reg }
              let w3 := w2.setLsn i1 (w2.lsn i1 ++ [a.2])
              -- `independentParameters_.deleteParameter(ns + p2)`
              match ParamList.deleteParameter w3.heap o'.indep (o.pre ++ p2) with
              | .error _ => { w := w3.setObj k o', err := some .notfound }
              | .ok ind => { w := w3.setObj k { o' with indep := ind } }

def aliasPair (w : World) (k : Nat) (p1 p2 : String) : WR := aliasPairG true w k p1 p2

/-! ## `unaliasParameters(p1, p2)` (AbstractParameterAliasable.cpp:193-209) -/

def unalias (w : World) (k : Nat) (p1 p2 : String) : WR :=
  match w.objs k with
  | none => { w := w, err := some .ub }
  | some o =>
    match find? w.heap o.params (o.pre ++ p1), find? w.heap o.params (o.pre ++ p2) with
    | none, _ => { w := w, err := some .notfound }
    | some _, none => { w := w, err := some .notfound }
    | some i1, some i2 =>
      let id := aliasId p1 p2
      -- repaired: the registered listener must be the one of `p2` following `p1` (the id alone does not
      -- identify the link when names contain "_to_")
      match (mapFind? id o.reg).filter (fun l => (w.lis l).src == p1 && (w.lis l).name == o.pre ++ p2) with
      | none => { w := w, err := some .bpp }
      | some _ =>
        -- `removeParameterListener(id)`: every attached listener object whose id is `id`
        let w1 := w.setLsn i1 ((w.lsn i1).filter (fun l => (w.lis l).id != id))
        let o1 : Obj := { o with reg := mapErase id o.reg }
        -- `independentParameters_.shareParameter(getParameter(p2))`
        let r := shareParameter (w1.setObj k o1) o1.indep i2
        match r.1.err with
        | some e => { w := r.1.w, err := some e }
        | none => { w := r.1.w.setObj k { o1 with indep := r.2 } }

/-! ## `aliasParameters(map, verbose)` (AbstractParameterAliasable.cpp:131-190, repaired)

`plpars` holds clones that nobody else refers to: a list of values.  The map is the key-sorted
list of its entries (key = the parameter that will follow, value = its source). -/

def plFind? (pl : List Par) (n : String) : Option Par := pl.find? (fun p => p.name == n)

structure BulkSt where
  w : World
  plpars : List Par
  /-- the entries still in `unparsedParams` -/
  left : List (String × String)
  err : Option Err := none
  /-- `links`: the links made, in the order they were made (alias, source) -/
  done : List (String × String) := []

/-- one pass of the inner `while (it != unparsedParams.end())` over the entries `todo`;
`kept` are the entries already skipped in this pass (they stay in the map) -/
def bulkPass (repaired : Bool) (k : Nat) : World → List Par → List (String × String) → List (String × String) → BulkSt
  | w, pl, kept, [] => { w := w, plpars := pl, left := kept }
  | w, pl, kept, (key, val) :: todo =>
    match plFind? pl val with
    | none =>
      let has := match w.objs k with
        | some o => hasParameter w.heap o.params val
        | none => false
      if !has then { w := w, plpars := pl, left := kept ++ (key, val) :: todo, err := some .notfound }
      else bulkPass repaired k w pl (kept ++ [(key, val)]) todo       -- `++it; continue;`
    | some pp =>
      -- clone, rename, `plpars.addParameter`
      if (plFind? pl key).isSome then { w := w, plpars := pl, left := kept ++ (key, val) :: todo, err := some .bpp }
      else
        let pl' := pl ++ [{ pp with name := key }]
        let r := aliasPairG repaired w k val key
        match r.err with
        | some e => { w := r.w, plpars := pl', left := kept ++ (key, val) :: todo, err := some e }
        | none =>                                                      -- `links.push_back`, `it = unparsedParams.erase(it)`
          let s := bulkPass repaired k r.w pl' kept todo
          { s with done := (key, val) :: s.done }

/-- the outer `while (unp_s != 0)` -/
def bulkLoop (k : Nat) : Nat → World → List Par → List (String × String) → BulkSt
  | 0, w, pl, m => { w := w, plpars := pl, left := m, err := some .hang }
  | f + 1, w, pl, m =>
    if m.length = 0 then { w := w, plpars := pl, left := m }
    else
      let s := bulkPass true k w pl [] m
      match s.err with
      | some _ => s
      | none =>
        if s.left.length = m.length then { s with err := some .bpp }     -- "there is a cycle in aliasing"
        else
          let t := bulkLoop k f s.w s.plpars s.left
          { t with done := s.done ++ t.done }

/-- sort the entries of the caller's map by key (later insertions overwrite) -/
def mkMap (l : List (String × String)) : List (String × String) :=
  l.foldl (fun m e => mapInsert e.1 e.2 m) []

/-- the final loop (repaired, 184-189): every new alias takes the value its source holds now, in
the order the links were made: `matchParametersValues` of a one-element list each -/
def syncLinks (l : List ObjId) : World → List (String × String) → WR
  | w, [] => { w := w }
  | w, (key, val) :: rest =>
    match find? w.heap l val with                       -- `pl.parameter(link.second)`
    | none => { w := w, err := some .notfound }
    | some s =>
      let r := (matchParametersValues w l [(key, (w.heap.get s).value)]).1
      match r.err with
      | some e => { w := r.w, err := some e }
      | none => syncLinks l r.w rest

/-- `repaired = false`: the end of the function as found, one `matchParametersValues(plpars)` with
the values cloned before the links were made -/
def bulkAliasG (repaired : Bool) (w : World) (k : Nat) (entries : List (String × String)) : WR :=
  match w.objs k with
  | none => { w := w, err := some .ub }
  | some o =>
    let m := mkMap entries
    let plpars := (o.params.filter (fun i => (mapFind? (nameOf w.heap i) m).isNone)).map w.heap.get
    let s := bulkLoop k (m.length + 1) w plpars m
    match s.err with
    | some e => { w := s.w, err := some e }
    | none =>
      match s.w.objs k with
      | none => { w := s.w, err := some .ub }
      | some o' =>
        if repaired then syncLinks o'.params s.w s.done
        else (matchParametersValues s.w o'.params (s.plpars.map (fun p => (p.name, p.value)))).1

def bulkAlias (w : World) (k : Nat) (entries : List (String × String)) : WR := bulkAliasG true w k entries

/-! ## `setNamespace(prefix)` (AbstractParameterAliasable.cpp:211-227, AbstractParametrizable.cpp:10-27) -/

def renamed (oldPre newPre cur : String) : String :=
  if startsWith cur oldPre then newPre ++ String.ofList (cur.toList.drop oldPre.length) else newPre ++ cur

def renameListeners (oldPre newPre : String) : World → List (String × Nat) → World
  | w, [] => w
  | w, e :: rest =>
    let L := w.lis e.2
    renameListeners oldPre newPre (w.setLis e.2 { L with name := renamed oldPre newPre L.name }) rest

def setNamespace (w : World) (k : Nat) (newPre : String) : WR :=
  match w.objs k with
  | none => { w := w, err := some .ub }
  | some o =>
    let w1 := renameListeners o.pre newPre w o.reg
    let h := ParamList.setNamespace w1.heap o.pre newPre o.params
    { w := ({ w1 with heap := h }).setObj k { o with pre := newPre } }

/-! ## Copy construction and assignment (AbstractParameterAliasable.cpp:11-73) -/

/-- `ParameterList(const ParameterList&)` / `operator=`: a fresh clone of every parameter; a
clone shares the listener objects of its original (Parameter.cpp:45-53) -/
def cloneAll : World → List ObjId → World × List ObjId
  | w, [] => (w, [])
  | w, i :: rest =>
    let a := w.allocPar (w.heap.get i) (w.lsn i)
    let r := cloneAll a.1 rest
    (r.1, a.2 :: r.2)

/-- loop 16-19 / 51-54: rebuild the independent list from the names of the source's -/
def rebuildIndep (pre : String) (params : List ObjId) : World → List ObjId → List ObjId → WR × List ObjId
  | w, ind, [] => ({ w := w }, ind)
  | w, ind, s :: rest =>
    match find? w.heap params (pre ++ stripNs pre (nameOf w.heap s)) with
    | none => ({ w := w, err := some .notfound }, ind)
    | some i =>
      let r := shareParameter w ind i
      match r.1.err with
      | some _ => r
      | none => rebuildIndep pre params r.1.w r.2 rest

/-- the inner loop 28-35 / 63-70 for one registry entry: every own parameter holding a listener
with that id drops it and gets the new listener object -/
def retarget (id : String) (newL : Nat) : World → List ObjId → World
  | w, [] => w
  | w, i :: rest =>
    if (w.lsn i).any (fun l => (w.lis l).id == id) then
      retarget id newL (w.setLsn i ((w.lsn i).filter (fun l => (w.lis l).id != id) ++ [newL])) rest
    else retarget id newL w rest

/-- loop 22-36 / 57-71 over the source's registry -/
def rebuildReg (dst : Nat) (params : List ObjId) : World → List (String × Nat) → List (String × Nat) → World × List (String × Nat)
  | w, reg, [] => (w, reg)
  | w, reg, (id, l) :: rest =>
    let a := w.allocLis { w.lis l with pl := dst }          -- clone + setParameterList
    let w1 := retarget id a.2 a.1 params
    rebuildReg dst params w1 (mapInsert id a.2 reg) rest

/-- the two loops shared by the copy constructor (16-36) and the assignment operator (51-71):
`params` are the object's own (freshly cloned) parameters, `ind0` / `reg0` what its independent
list and registry hold when the loops start; the finished object is stored in slot `dst` -/
def rebuild (w : World) (src : Obj) (dst : Nat) (params ind0 : List ObjId) (reg0 : List (String × Nat)) : WR :=
  let r := rebuildIndep src.pre params w ind0 src.indep
  match r.1.err with
  | some e => { w := r.1.w, err := some e }
  | none =>
    let g := rebuildReg dst params r.1.w reg0 src.reg
    { w := g.1.setObj dst { params := params, indep := r.2, reg := g.2, pre := src.pre } }

/-- `new T(*objs[src])`, then stored in slot `dst` -/
def copyConstruct (w : World) (src dst : Nat) : WR :=
  match w.objs src with
  | none => { w := w, err := some .ub }
  | some o =>
    let c := cloneAll w o.params
    rebuild c.1 o dst c.2 [] []

/-- `*objs[dst] = *objs[src]` (repaired: self-assignment is a no-op; after the base class has
replaced the parameters (49), the former independent parameters and listeners are dropped) -/
def assign (w : World) (src dst : Nat) : WR :=
  match w.objs src, w.objs dst with
  | some o, some _ =>
    if src = dst then { w := w }
    else
      let c := cloneAll w o.params
      let w1 := c.1.setObj dst { params := c.2, indep := [], reg := [], pre := o.pre }
      rebuild w1 o dst c.2 [] []
  | _, _ => { w := w, err := some .ub }

/-! ## `addParameter_` (AbstractParameterAliasable.h:196-200) and object creation -/

def newObj (w : World) (k : Nat) (pre : String) : World :=
  w.setObj k { params := [], indep := [], reg := [], pre := pre }

/-- `addParameter_(new Parameter(name, v, con))`; `name` is the full name -/
def addParam (w : World) (k : Nat) (p : Par) : WR :=
  match w.objs k with
  | none => { w := w, err := some .ub }
  | some o =>
    if !p.ok then { w := w, err := some .constraint }                -- the `Parameter` constructor
    else if hasParameter w.heap o.params p.name then { w := w, err := some .bpp }
    else
      let a := w.allocPar p []
      let o1 : Obj := { o with params := o.params ++ [a.2] }
      let w1 := a.1.setObj k o1
      -- `independentParameters_.shareParameter(getParameter(getParameterNameWithoutNamespace(name)))`
      match find? w1.heap o1.params (o.pre ++ stripNs o.pre p.name) with
      | none => { w := w1, err := some .notfound }
      | some i =>
        let r := shareParameter w1 o1.indep i
        match r.1.err with
        | some e => { w := r.1.w, err := some e }
        | none => { w := r.1.w.setObj k { o1 with indep := r.2 } }

/-! ## `AbstractParametrizable` forwarding (AbstractParametrizable.h:53-83); the notification
`fireParameterChanged` is the empty default -/

def apSetParameterValue (w : World) (k : Nat) (n : String) (v : Rat) : WR :=
  match w.objs k with
  | none => { w := w, err := some .ub }
  | some o => setParameterValue w o.params (o.pre ++ n) v

def apSetParametersValues (w : World) (k : Nat) (src : List (String × Rat)) : WR :=
  match w.objs k with
  | none => { w := w, err := some .ub }
  | some o => setParametersValues w o.params src

def apMatchParametersValues (w : World) (k : Nat) (src : List (String × Rat)) : WR × Bool :=
  match w.objs k with
  | none => ({ w := w, err := some .ub }, false)
  | some o => matchParametersValues w o.params src

def apSetAllParametersValues (w : World) (k : Nat) (src : List (String × Rat)) : WR :=
  match w.objs k with
  | none => { w := w, err := some .ub }
  | some o => setAllParametersValues w o.params src

/-! ## Histories -/

inductive Op where
  | new (k : Nat) (pre : String)                       -- `objs[k] = new T(pre)`
  | add (k : Nat) (p : Par)                            -- `addParameter_(new Parameter(p.name, …))`
  | alias (k : Nat) (p1 p2 : String)
  | unalias (k : Nat) (p1 p2 : String)
  | bulk (k : Nat) (entries : List (String × String))
  | setv (k : Nat) (n : String) (v : Rat)
  | setvs (k : Nat) (src : List (String × Rat))
  | matchvs (k : Nat) (src : List (String × Rat))
  | setallv (k : Nat) (src : List (String × Rat))
  | copy (src dst : Nat)
  | assign (src dst : Nat)
  | ns (k : Nat) (pre : String)
  | aliases (k : Nat)                                  -- `getAliases()`
  | aliasOf (k : Nat) (n : String)                     -- `getAlias(n)`
  | from (k : Nat) (n : String)                        -- `getFrom(n)`

inductive Out where
  | ok
  | err (e : Err)
  | flag (b : Bool)
  | strs (l : List String)
  | pairs (l : List (String × String))
  | str (s : String)
  deriving DecidableEq

def Out.ofErr : Option Err → Out
  | none => .ok
  | some e => .err e

def stepWR (r : WR) : World × Out := (r.w, .ofErr r.err)

def step (w : World) : Op → World × Out
  | .new k pre => (newObj w k pre, .ok)
  | .add k p => stepWR (addParam w k p)
  | .alias k p1 p2 => stepWR (aliasPair w k p1 p2)
  | .unalias k p1 p2 => stepWR (unalias w k p1 p2)
  | .bulk k es => stepWR (bulkAlias w k es)
  | .setv k n v => stepWR (apSetParameterValue w k n v)
  | .setvs k src => stepWR (apSetParametersValues w k src)
  | .matchvs k src =>
    let r := apMatchParametersValues w k src
    (r.1.w, match r.1.err with | some e => .err e | none => .flag r.2)
  | .setallv k src => stepWR (apSetAllParametersValues w k src)
  | .copy s d => stepWR (copyConstruct w s d)
  | .assign s d => stepWR (assign w s d)
  | .ns k pre => stepWR (setNamespace w k pre)
  | .aliases k =>
    match w.objs k with
    | none => (w, .err .ub)
    | some o => (w, match getAliases w o with | .ok m => .pairs m | .error e => .err e)
  | .aliasOf k n =>
    match w.objs k with
    | none => (w, .err .ub)
    | some o => (w, match getAlias (o.reg.length + 1) w o n with | .ok l => .strs l | .error e => .err e)
  | .from k n =>
    match w.objs k with
    | none => (w, .err .ub)
    | some o => (w, .str (getFrom w o n))

def run (w : World) : List Op → World
  | [] => w
  | op :: rest => run (step w op).1 rest

/-! ## The code as it was before the repairs (witness theorems only) -/
namespace Legacy

/-- the inner loop of the bulk form as found: `continue` without `++it` re-examines the same entry
for ever; with fuel, `hang` -/
def bulkPass (k : Nat) : Nat → World → List Par → List (String × String) → BulkSt
  | 0, w, pl, todo => { w := w, plpars := pl, left := todo, err := some .hang }
  | _ + 1, w, pl, [] => { w := w, plpars := pl, left := [] }
  | f + 1, w, pl, (key, val) :: todo =>
    match plFind? pl val with
    | none =>
      let has := match w.objs k with
        | some o => hasParameter w.heap o.params val
        | none => false
      if !has then { w := w, plpars := pl, left := (key, val) :: todo, err := some .notfound }
      else bulkPass k f w pl ((key, val) :: todo)                      -- `continue;` : same `it`
    | some pp =>
      if (plFind? pl key).isSome then { w := w, plpars := pl, left := (key, val) :: todo, err := some .bpp }
      else
        let pl' := pl ++ [{ pp with name := key }]
        let r := aliasPairG false w k val key
        match r.err with
        | some e => { w := r.w, plpars := pl', left := (key, val) :: todo, err := some e }
        | none => bulkPass k f r.w pl' todo

/-- `operator=` as found: the independent list and the registry are not emptied -/
def assign (w : World) (src dst : Nat) : WR :=
  match w.objs src, w.objs dst with
  | some o, some d =>
    let c := cloneAll w o.params
    let w1 := c.1.setObj dst { d with params := c.2, pre := o.pre }
    rebuild w1 o dst c.2 d.indep d.reg
  | _, _ => { w := w, err := some .ub }

end Legacy

end Bpp.Alias
