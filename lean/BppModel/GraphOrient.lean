import BppModel.Graph
/-
`GlobalGraph::orientate()` (GlobalGraph.cpp:750-823 of the library worktree): the one public
mutator of `GlobalGraph` that round 1 left out.  It makes the graph directed, then walks a *copy*
`gg` of the graph from the root: the node treated next has its incoming relations (in the copy)
reversed in the graph itself with `switchNodes`, its neighbours are queued, and it is deleted from
the copy.  Bug-compatible transcription:

* the queue `nextNodes` is a `std::set` (ascending, here a sorted list);
* the node treated next is the first queued node with at most one neighbour in the copy; if there
  is none, "the node with the minimum number of fathers" is searched starting from
  `size_t nbF = numeric_limits<size_t>::infinity()` — which is 0 for an integer type, so the test
  `nbF == 0` succeeds at the first queued node: the first queued node is taken;
* when the queue is empty while the copy still has nodes (a graph that is not connected) node 0
  is taken; if the copy has no node 0, `getIncomingNeighbors` throws — after part of the graph has
  been re-oriented;
* `switchNodes` throws on a reciprocal pair of relations — again after part of the work.

So a raising `orientate` does *not* leave the graph unchanged; it leaves it consistent
(`Props/C14Copy.lean`, `orientate_consistent`).
-/
namespace Bpp.Graph
namespace G

/-- `getNumberOfNeighbors` (GlobalGraph.cpp:460); `none` = throws -/
def nbNeighbors (g : G) (n : Nat) : Option Nat := RowQ.degree g.directed (g.rowOf n)

/-- first loop over the queue (:772-776): `some (some n)` = found, `some none` = none found,
`none` = `getNumberOfNeighbors` threw (a queued node that is not in the copy) -/
def orientScan (gg : G) : List Nat → Option (Option Nat)
  | [] => some none
  | n :: r =>
    match gg.nbNeighbors n with
    | none => none
    | some d => if d ≤ 1 then some (some n) else orientScan gg r

/-- the node treated next (:772-804) -/
def orientPick (gg : G) (next : List Nat) : Option Nat :=
  match orientScan gg next with
  | none => none
  | some (some n) => some n
  | some none =>
    match next with
    | [] => some 0
    | n :: _ => some n

/-- `std::set::insert` -/
def setInsert (n : Nat) : List Nat → List Nat
  | [] => [n]
  | m :: r => if n < m then n :: m :: r else if n = m then m :: r else m :: setInsert n r

/-- what one call of `orientate` did: the `switchNodes` calls made on the graph itself (the last
one is the raising one when `raised`), and the graph it left -/
structure OrientRun where
  switches : List (Nat × Nat) := []
  raised : Bool := false
  g : G

/-- `switchNodes(nbgg, it2)` for every incoming neighbour (in the copy) of the treated node (:807-811) -/
def orientSwitches (nb : Nat) : List Nat → OrientRun → OrientRun
  | [], r => r
  | i :: rest, r =>
    match r.g.switchNodes nb i with
    | .ok _ g' => orientSwitches nb rest { r with switches := r.switches ++ [(nb, i)], g := g' }
    | .exc g' => { switches := r.switches ++ [(nb, i)], raised := true, g := g' }

/-- the loop `while (gg.getNumberOfNodes() != 0)` (:765-822); `fuel` = number of nodes of the copy + 1
(every round deletes one node of the copy) -/
def orientLoop : Nat → OrientRun → G → List Nat → OrientRun
  | 0, r, _, _ => r
  | fuel + 1, r, gg, next =>
    if gg.nodes.isEmpty then r
    else
      match orientPick gg next with
      | none => { r with raised := true }
      | some nb =>
        match gg.inNeighbors nb with
        | none => { r with raised := true }
        | some ins =>
          let r1 := orientSwitches nb ins r
          if r1.raised then r1
          else
            let outs := (gg.outNeighbors nb).getD []
            let next1 := ((ins ++ outs).foldl (fun s n => setInsert n s) next).filter (· ≠ nb)
            match gg.deleteNode nb with
            | .ok _ gg1 => orientLoop fuel r1 { gg1 with pending := [] } next1
            | .exc _ => { r1 with raised := true }

def orientRun (g : G) : OrientRun :=
  let g0 := g.makeDirected
  orientLoop (g0.nodes.length + 1) { g := g0 } { g0 with pending := [] } [g0.root]

/-- `orientate()` -/
def orientate (g : G) : GOut Unit :=
  let r := g.orientRun
  if r.raised then .exc r.g else .ok () r.g

end G

/-- the same on the reference multigraph: `makeDirected`, then the recorded `switchNodes` calls,
each on the reference's own definition (a raising call changes nothing) -/
def Spec.orientReplay (s : Spec) (switches : List (Nat × Nat)) : Spec :=
  switches.foldl (fun s p => match s.switchNodes p.1 p.2 with | some s' => s' | none => s) s.makeDirected

end Bpp.Graph
