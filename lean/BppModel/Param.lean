import BppModel.Interval
/-
Model of `bpp::Parameter` (src/Bpp/Numeric/Parameter.{h,cpp}) and of
`bpp::AutoParameter::setValue` (src/Bpp/Numeric/AutoParameter.cpp:42-81), generic over
`[Scalar α]` like `Interval`.

Modelled: value, precision, the constraint (an `IntervalConstraint` or none), the dynamic type
(plain / auto-correcting), every member that writes one of them, and histories of such calls
over a store of parameter objects.
The constraint is held *by value* here; `BppModel/ParamShared.lean` is the same class with the
constraint as the `shared_ptr` to a mutable object it is in the code (every member there is the
member of this file applied to the dereferenced view; the two are related by a simulation,
BppProofs/Props/C01Shared.lean).
Not modelled: the name and the listeners (C03); NaN / infinite parameter values (an
auto-correction whose limit is infinite ends in the explicit outcome `PErr.nonfinite`).
-/
namespace Bpp

/-- what a member can raise: `ConstraintException`, or "the model does not cover this"
(the corrected value would be infinite) -/
inductive PErr where
  | constraint
  | nonfinite
deriving DecidableEq, Repr, Inhabited

structure Param (α : Type) where
  value : α
  precision : α
  constraint : Option (Interval α)
  /-- dynamic type is `AutoParameter` -/
  auto : Bool
deriving Repr, Inhabited

namespace Param
variable {α : Type} [Scalar α]

/-- `!(constraint_ && !constraint_->isCorrect(v))` -/
def accepts (p : Param α) (v : α) : Bool :=
  match p.constraint with
  | none => true
  | some c => c.isCorrect v

/-- The invariant of property C01, executable: the stored value is accepted by the constraint
(if any).  This is the predicate the theorems are about *and* the one the driver evaluates on the
implementation's answers. -/
def invOk (p : Param α) : Bool := p.accepts p.value

/-- `Parameter::setPrecision` (Parameter.cpp:69) -/
def setPrecision (p : Param α) (x : α) : Param α :=
  { p with precision := if Scalar.ltb x Scalar.zero then Scalar.zero else x }

/-- `Parameter::setValue` (Parameter.cpp:55): a request within `precision_/2` of the current value
is ignored; otherwise check, then write. -/
def setValueBase (p : Param α) (v : α) : Except PErr (Param α) :=
  if Scalar.gtb (Scalar.abs (v - p.value)) (p.precision / Scalar.ofInt 2) then
    if p.accepts v then .ok { p with value := v } else .error .constraint
  else .ok p

/-- `Parameter::Parameter(name, value, constraint, precision)` (Parameter.cpp:24), repaired: the
initial value is checked directly. `auto = true` is `AutoParameter(name, value, constraint)`
(precision 0), which runs the same base constructor. -/
def construct (v : α) (c : Option (Interval α)) (prec : α) (auto : Bool) : Except PErr (Param α) :=
  let p0 : Param α := { value := v, precision := Scalar.zero, constraint := c, auto := auto }
  if p0.accepts v then .ok (p0.setPrecision prec) else .error .constraint

/-- copy constructor / `clone()` -/
def copy (p : Param α) : Param α := p

/-- `AutoParameter(const Parameter&)` -/
def toAuto (p : Param α) : Param α := { p with auto := true }

/-- `Parameter(const Parameter&)` applied to an auto-correcting object (slicing copy: `Parameter q(a)`,
a by-value argument): a plain parameter with the same members -/
def toPlain (p : Param α) : Param α := { p with auto := false }

/-- `operator=`: all data members; the dynamic type of the target stays -/
def assign (dst src : Param α) : Param α := { src with auto := dst.auto }

/-- `Parameter::setConstraint` (Parameter.cpp:76) -/
def setConstraint (p : Param α) (c : Option (Interval α)) : Except PErr (Param α) :=
  match c with
  | some c' => if !c'.isCorrect p.value then .error .constraint else .ok { p with constraint := some c' }
  | none => .ok { p with constraint := none }

/-- `Parameter::removeConstraint` (Parameter.cpp:85): returns the former constraint -/
def removeConstraint (p : Param α) : Param α × Option (Interval α) :=
  ({ p with constraint := none }, p.constraint)

/-- `AutoParameter::setValue` (AutoParameter.cpp:42): three nested `try` blocks. -/
def setValueAuto (p : Param α) (v : α) : Except PErr (Param α) :=
  match p.setValueBase v with
  | .ok p' => .ok p'
  | .error _ =>
    match p.constraint with
    | none => .error .constraint          -- unreachable: only a constraint makes setValue raise
    | some c =>
      match c.getAcceptedLimit (.fin v) with
      | .fin limit =>
        match p.setValueBase limit with
        | .ok p' => .ok p'
        | .error _ =>
          match p.setValueBase (limit + Constants.TINY) with
          | .ok p' => .ok p'
          | .error _ => p.setValueBase (limit - Constants.TINY)
      | _ => .error .nonfinite

/-- does `AutoParameter::setValue(v)` write a "Constraint match" line to its message handler
(AutoParameter.cpp:52-60)?  Exactly when the first plain `setValue` raises; the later attempts
are silent. -/
def autoReports (p : Param α) (v : α) : Bool :=
  p.auto && (match p.setValueBase v with | .error _ => true | .ok _ => false)

/-- virtual `setValue` -/
def setValue (p : Param α) (v : α) : Except PErr (Param α) :=
  if p.auto then p.setValueAuto v else p.setValueBase v

/-- The executable form of "ends on the accepted value nearest to the request" for a call
`setValue(v)` on `p` that ended on the value `w`: an accepted request is met up to the
precision window; a rejected one ends within `slack` steps (`max constraint-precision TINY`) plus
the precision window of the bound on the request's side. -/
def nearestOk (slack : α) (p : Param α) (v w : α) : Bool :=
  match p.constraint with
  | none => true
  | some c =>
    let half := p.precision / Scalar.ofInt 2
    if c.isCorrect v then Scalar.leb (Scalar.abs (w - v)) half
    else
      let step := slack * Scalar.max c.prec Constants.TINY + half
      if c.geV (.fin v) then
        match c.lo with
        | .fin lo => Scalar.leb (Scalar.abs (w - v)) ((lo - v) + step)
        | _ => false
      else
        match c.hi with
        | .fin hi => Scalar.leb (Scalar.abs (w - v)) ((v - hi) + step)
        | _ => false

/-! ### the constructor as it was before the repair -/
namespace Legacy
/-- starts from `value_ = 0, precision_ = 0` and routes the value through `setValue`, which
ignores a request equal to the current value -/
def construct (v : α) (c : Option (Interval α)) (prec : α) (auto : Bool) : Except PErr (Param α) :=
  let p0 : Param α := { value := Scalar.zero, precision := Scalar.zero, constraint := c, auto := auto }
  match p0.setValueBase v with
  | .ok p1 => .ok (p1.setPrecision prec)
  | .error e => .error e
end Legacy

end Param

/-! ## histories over a store of parameter objects -/

/-- one call of the public interface on the object in register `k` -/
inductive POp (α : Type) where
  | construct (k : Nat) (auto : Bool) (v : α) (c : Option (Interval α)) (prec : α)
  | copy (src dst : Nat)
  | toAuto (src dst : Nat)
  | toPlain (src dst : Nat)
  | assign (src dst : Nat)
  | setValue (k : Nat) (v : α)
  | setPrecision (k : Nat) (x : α)
  | setConstraint (k : Nat) (c : Option (Interval α))
  | removeConstraint (k : Nat)

/-- registers holding parameter objects -/
abbrev PStore (α : Type) := Nat → Option (Param α)

namespace PStore
variable {α : Type}
def empty : PStore α := fun _ => none
def set (s : PStore α) (k : Nat) (p : Param α) : PStore α := fun i => if i = k then some p else s i
end PStore

inductive POutcome where
  | done
  | raised (e : PErr)
  /-- the script names an empty register (not a library outcome) -/
  | absent
deriving DecidableEq, Repr, Inhabited

namespace POp
variable {α : Type} [Scalar α]

/-- one step: the new store and what the call did.  A raising call leaves the store as it was
(a throwing constructor leaves no object behind: the register keeps its former content). -/
def step (s : PStore α) : POp α → PStore α × POutcome
  | .construct k auto v c prec =>
    match Param.construct v c prec auto with
    | .ok p => (s.set k p, .done)
    | .error e => (s, .raised e)
  | .copy src dst =>
    match s src with
    | some p => (s.set dst p.copy, .done)
    | none => (s, .absent)
  | .toAuto src dst =>
    match s src with
    | some p => (s.set dst p.toAuto, .done)
    | none => (s, .absent)
  | .toPlain src dst =>
    match s src with
    | some p => (s.set dst p.toPlain, .done)
    | none => (s, .absent)
  | .assign src dst =>
    match s src, s dst with
    | some p, some q => (s.set dst (q.assign p), .done)
    | _, _ => (s, .absent)
  | .setValue k v =>
    match s k with
    | some p =>
      match p.setValue v with
      | .ok p' => (s.set k p', .done)
      | .error e => (s, .raised e)
    | none => (s, .absent)
  | .setPrecision k x =>
    match s k with
    | some p => (s.set k (p.setPrecision x), .done)
    | none => (s, .absent)
  | .setConstraint k c =>
    match s k with
    | some p =>
      match p.setConstraint c with
      | .ok p' => (s.set k p', .done)
      | .error e => (s, .raised e)
    | none => (s, .absent)
  | .removeConstraint k =>
    match s k with
    | some p => (s.set k p.removeConstraint.1, .done)
    | none => (s, .absent)

/-- a whole history, raising calls included -/
def run (s : PStore α) : List (POp α) → PStore α
  | [] => s
  | op :: rest => run (step s op).1 rest

end POp
end Bpp
