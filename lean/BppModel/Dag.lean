import BppModel.Tree
import BppModel.GraphOrient
/-
Model of src/Bpp/Graph/DAGraphImpl.h instantiated at GlobalGraph (`DAGlobalGraph`): the graph of
`BppModel/Graph.lean` plus the two cached flags `isValid_` (:30) and `isRooted_` (:37).  Both are
reset by the virtual `topologyHasChanged_()` (:361), which every structure-modifying primitive of
GlobalGraph ends with; `isValid_` is written by `validate_` (:354) from `GlobalGraph::isDA`
(GlobalGraph.cpp:706: repeated removal of the son-less nodes on a copy), `isRooted_` by `isRooted`
(:229); `rootAt` (:416) with `propagateDirection_` (:433) and `GlobalGraph::orientate` (BppModel/GraphOrient.lean).
Line numbers: the library worktree with its `fix:` commits.
-/
namespace Bpp.Graph

structure D where
  g : G
  /-- `isValid_` -/
  valid : Bool := false
  /-- `isRooted_` -/
  rooted : Bool := false
deriving DecidableEq, Repr

namespace D

/-- `DAGraphImpl(bool)` (:214): always directed -/
def empty : D := { g := Graph.empty true }

/-! ### isDA (GlobalGraph.cpp:706) -/

/-- the nodes without outgoing neighbour, in iteration order (:719-724, :738-743) -/
def sinks (g : G) : List Nat := (g.nodes.filter (fun p => p.2.out.length == 0)).map (·.1)

/-- `gg.deleteNode(it2)` for every collected node (:728-731); `none` = deleteNode threw -/
def deleteAll : List Nat → G → Option G
  | [], g => some g
  | n :: rest, g =>
    match g.deleteNode n with
    | .ok _ g' => deleteAll rest g'
    | .exc _ => none

/-- the loop of `isDA` (:726-744) on the copy `g`, `vL` the collected son-less nodes -/
def isDALoop : Nat → G → List Nat → TRes Bool
  | 0, _, _ => .fuel
  | fuel + 1, g, vL =>
    if vL.isEmpty then .ok false
    else
      match deleteAll vL g with
      | none => .exc
      | some g' => if g'.nodes.isEmpty then .ok true else isDALoop fuel g' (sinks g')

/-- `isDA`: a graph without node has no cycle; otherwise remove the son-less nodes round after
round: acyclic iff nothing is left -/
def isDA (g : G) : TRes Bool :=
  if g.nodes.isEmpty then .ok true else isDALoop (g.nodes.length + 1) g (sinks g)

/-- `isValid` (:222) -/
def isValid (d : D) : TRes Bool × D :=
  if d.valid then (.ok true, d)
  else
    match isDA d.g with
    | .ok b => (.ok b, { d with valid := b })
    | r => (r, d)

/-- the number of nodes without father -/
def nbFatherless (g : G) : Nat := (g.nodes.filter (fun p => p.2.inn.length == 0)).length

/-- `isRooted` (:229): false as soon as a second father-less node is met (the flag is left alone);
otherwise true, and the flag remembers whether one was seen -/
def isRooted (d : D) : Bool × D :=
  if d.rooted then (true, d)
  else if nbFatherless d.g ≥ 2 then (false, d)
  else (true, { d with rooted := decide (nbFatherless d.g = 1) })

/-! ### mutators -/

/-- a graph operation that raised before touching anything leaves the flags alone; otherwise both
are reset (`topologyHasChanged_`, :360) -/
def lift {α : Type} (d : D) (r : GOut α) : GOut α × D :=
  match r with
  | .ok a g' => (.ok a { g' with pending := [] }, { g := { g' with pending := [] }, valid := false, rooted := false })
  | .exc g' => (.exc { g' with pending := [] },
      { g := { g' with pending := [] }, valid := if g' = d.g then d.valid else false, rooted := if g' = d.g then d.rooted else false })

def createNode (d : D) := d.lift d.g.createNode
def link (d : D) (a b : Nat) := d.lift (d.g.link a b)
def linkE (d : D) (a b e : Nat) := d.lift (d.g.linkE a b e)
def unlink (d : D) (a b : Nat) := d.lift (d.g.unlink a b)
def deleteNode (d : D) (n : Nat) := d.lift (d.g.deleteNode n)
def setRoot (d : D) (n : Nat) := d.lift (d.g.setRoot n)

def unit {α : Type} (r : GOut α × D) : GOut Unit × D := (r.1.forget, r.2)

def andThen {α β : Type} (r : GOut α × D) (f : α → D → GOut β × D) : GOut β × D :=
  match r.1 with
  | .ok a _ => f a r.2
  | .exc g => (.exc g, r.2)

/-- the explicit `topologyHasChanged_()` after a successful link (:385, :392, :279, :287) -/
def touch (r : GOut Unit × D) : GOut Unit × D :=
  match r.1 with
  | .ok _ _ => (r.1, { r.2 with valid := false, rooted := false })
  | .exc _ => r

/-- `addSon` (:382, :389) -/
def addSon (d : D) (n s : Nat) : GOut Unit × D := touch (unit (d.link n s))
def addSonE (d : D) (n s e : Nat) : GOut Unit × D := touch (d.linkE n s e)
/-- `addFather` (:276, :284): `isRooted_ = false` as well -/
def addFather (d : D) (n f : Nat) : GOut Unit × D := touch (unit (d.link f n))
def addFatherE (d : D) (n f e : Nat) : GOut Unit × D := touch (d.linkE f n e)
/-- `removeSon` (:409) -/
def removeSon (d : D) (n s : Nat) : GOut Unit × D := unit (d.unlink n s)
/-- `removeFather` (:303): the number of fathers is read first (throws for an absent node) -/
def removeFather (d : D) (n f : Nat) : GOut Unit × D :=
  match RowQ.nbIn (d.g.rowOf n) with
  | none => (.exc d.g, d)
  | some k =>
    let d1 : D := if k = 1 then { d with rooted := false } else d
    unit (d1.unlink f n)

/-- `removeSons` (:397) / `removeFathers` (:292): a snapshot of the neighbours, then one by one -/
def removeSons (d : D) (n : Nat) : GOut (List Nat) × D :=
  match d.g.outNeighbors n with
  | none => (.exc d.g, d)
  | some sons =>
    let r := sons.foldl (fun acc s => andThen acc (fun _ d' => d'.removeSon n s)) (.ok () d.g, d)
    match r.1 with
    | .ok _ g => (.ok sons g, r.2)
    | .exc g => (.exc g, r.2)

def removeFathers (d : D) (n : Nat) : GOut (List Nat) × D :=
  match d.g.inNeighbors n with
  | none => (.exc d.g, d)
  | some fathers =>
    let r := fathers.foldl (fun acc f => andThen acc (fun _ d' => d'.removeFather n f)) (.ok () d.g, d)
    match r.1 with
    | .ok _ g => (.ok fathers g, r.2)
    | .exc g => (.exc g, r.2)

/-! ### queries -/

/-- `fillListOfLeaves_` (:321) -/
def leavesUnder (g : G) : Nat → Nat → List Nat → TRes (List Nat)
  | 0, _, _ => .fuel
  | fuel + 1, start, found =>
    match g.outNeighbors start with
    | none => .exc
    | some sons =>
      if sons.length > 0 then
        sons.foldl (fun acc s => match acc with | .ok f => leavesUnder g fuel s f | r => r) (.ok found)
      else .ok (found ++ [start])

/-- `getBelowNodes` (:449) / `getBelowEdges` (:458): `mustBeValid_`, then the recursions of the tree
container (same code, :468-488) -/
def getBelow (edges : Bool) (d : D) (n : Nat) : TRes (List Nat) × D :=
  let (v, d') := d.isValid
  match v with
  | .ok true =>
    ((if edges then T.subtreeEdges d'.g (d'.g.nodes.length + 2) n [] else T.subtreeNodes d'.g (d'.g.nodes.length + 2) n []), d')
  | .ok false => (.exc, d')
  | .exc => (.exc, d')
  | .fuel => (.fuel, d')
  | .ub => (.ub, d')

/-! ### re-rooting (`rootAt` :408, `propagateDirection_` :424) -/

/-- `propagateDirection_` (:433): the fathers are read once (`getFathers`, throwing for an absent
node); first loop: the recursive call on every father, in turn, each on the graph the former
ones left; second loop: `switchNodes(father, node)` for the same snapshot of fathers (throws when
the relation is no longer there or the reversed one exists already — after part of the work).
The recursion takes fuel here: outcome `fuel` = it would not return. -/
def propagate : Nat → D → Nat → TRes (GOut Unit × D)
  | 0, _, _ => .fuel
  | fuel + 1, d, n =>
    match d.g.inNeighbors n with
    | none => .ok (.exc d.g, d)
    | some fats =>
      let r1 : TRes (GOut Unit × D) := fats.foldl (fun acc f =>
        match acc with
        | .ok (.ok _ _, d') => propagate fuel d' f
        | other => other) (.ok (.ok () d.g, d))
      match r1 with
      | .ok (.ok _ _, d1) =>
        .ok (fats.foldl (fun acc f => andThen acc (fun _ d' => d'.lift (d'.g.switchNodes f n))) (.ok () d1.g, d1))
      | other => other

/-- did at least one `switchNodes` call of an `orientate` run succeed?  The recorded calls are replayed on the
graph (a raising call changes nothing).  A successful call ends with `topologyHasChanged_()` even when it
changes nothing in the tables (a loop `a -> a` switched with itself) -/
def orientTouched (g : G) (switches : List (Nat × Nat)) : Bool :=
  (switches.foldl (fun (acc : G × Bool) p =>
    match acc.1.switchNodes p.1 p.2 with
    | .ok _ g' => (g', true)
    | .exc _ => acc) (g.makeDirected, false)).2

/-- the `else` branch of `rootAt` (:423-428): `GlobalGraph::orientate()`: every `switchNodes` that succeeds in it
ends with `topologyHasChanged_` (both flags reset); when none did — `orientate` raised at once or had
nothing to turn — the tables and the flags are as before.  As repaired, nothing else happens: the
rootedness flag is left to `isRooted()` (the unrepaired code set `isRooted_ = true`, although `orientate`
leaves one father-less node per connected component) -/
def orient (d : D) : GOut Unit × D :=
  let r := d.g.orientRun
  if orientTouched d.g r.switches then
    let g' : G := { r.g with pending := [] }
    (if r.raised then .exc g' else .ok () g', { g := g', valid := false, rooted := false })
  else
    let g0 : G := { d.g with pending := [] }
    (if r.raised then .exc g0 else .ok () g0, { d with g := g0 })

/-- the fuel given to `propagateDirection_` -/
def propagateFuel (g : G) : Nat := g.nodes.length * g.nodes.length + 2

/-- `rootAt` (:416): `setRoot` (throws for an absent node: nothing changed), then
`isRooted() && isValid()` (short-circuit; both write their caches) chooses between turning round
the relations above the new root and `orientate()` -/
def rootAt (d : D) (n : Nat) : TRes (GOut Unit × D) :=
  match d.setRoot n with
  | (.exc g, d1) => .ok (.exc g, d1)
  | (.ok _ _, d1) =>
    let (r, d2) := d1.isRooted
    if r then
      let (v, d3) := d2.isValid
      match v with
      | .ok true => propagate (propagateFuel d3.g) d3 n
      | .ok false => .ok d3.orient
      | .exc => .ok (.exc d3.g, d3)
      | .fuel => .fuel
      | .ub => .ub
    else .ok d2.orient

/-- `getLeavesUnderNode` (:312) as the check exercises it: on a valid DAG only (no validity check in the
C++: on a cycle reachable from the node the recursion does not return) -/
def leavesUnderQ (d : D) (n : Nat) : TRes (List Nat) := leavesUnder d.g (d.g.nodes.length + 2) n []

end D

/-! ### histories -/

inductive DOp where
  | createNode | link (a b : Nat) | linkE (a b e : Nat) | unlink (a b : Nat) | deleteNode (n : Nat) | setRoot (n : Nat)
  | addSon (n s : Nat) | addSonE (n s e : Nat) | addFather (n f : Nat) | addFatherE (n f e : Nat)
  | removeSon (n s : Nat) | removeFather (n f : Nat) | removeSons (n : Nat) | removeFathers (n : Nat)
  | isValid | isRooted | getBelow (edges : Bool) (n : Nat)
  | rootAt (n : Nat)
deriving Repr

namespace D
/-- the container after the operation, whether it succeeded or raised -/
def step (d : D) : DOp → D
  | .createNode => d.createNode.2
  | .link a b => (d.link a b).2
  | .linkE a b e => (d.linkE a b e).2
  | .unlink a b => (d.unlink a b).2
  | .deleteNode n => (d.deleteNode n).2
  | .setRoot n => (d.setRoot n).2
  | .addSon n s => (d.addSon n s).2
  | .addSonE n s e => (d.addSonE n s e).2
  | .addFather n f => (d.addFather n f).2
  | .addFatherE n f e => (d.addFatherE n f e).2
  | .removeSon n s => (d.removeSon n s).2
  | .removeFather n f => (d.removeFather n f).2
  | .removeSons n => (d.removeSons n).2
  | .removeFathers n => (d.removeFathers n).2
  | .isValid => d.isValid.2
  | .isRooted => d.isRooted.2
  | .getBelow e n => (d.getBelow e n).2
  | .rootAt n => match d.rootAt n with | .ok r => r.2 | _ => d

def run (d : D) (ops : List DOp) : D := ops.foldl step d
end D

end Bpp.Graph
