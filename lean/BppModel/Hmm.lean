import BppModel.Prelude.Scalar
/-
Model of the HMM likelihood classes of src/Bpp/Numeric/Hmm:
  RescaledHmmLikelihood.cpp, LowMemoryRescaledHmmLikelihood.cpp, LogsumHmmLikelihood.cpp
(+ NumTools::logsum, NumTools.h:96), generic over `Scalar α` (Float in the driver, ℝ in the proofs).

Inputs of the model (what the HmmStateAlphabet / HmmTransitionMatrix / HmmEmissionProbabilities
objects answer): the number of hidden states `n`, `P i j = Pij(i,j)`,
`pi k = getEquilibriumFrequencies()[k]`, and per site the emission vector `e j`.

Transcription conventions
 * a C++ `x = 0; for k: x += a_k` is `sumL` (left fold from `zero`), a row/column of a flat
   array is a `List` built by `vec n`;
 * the control flow on break points only depends on the break-point vector and the site index:
   it is transcribed once (`fwdFlags`: forward iterator `bpIt`/`nextBrkPt`; `bwdFlags`: reverse
   iterator) and the numeric loops run over sites tagged with the resulting "reset here" flag;
 * `std::sort` with `greater<double>` followed by a summation is `sumL (sortDesc l)`: the proofs
   only use that the sorted vector is a permutation;
 * the model follows the repaired code (fix commits in findings/C13.json): the division by the
   first scale factor is guarded like all the others, and the low-memory class flushes its buffer
   of log-scales when it is full *before* writing the next one.
-/
namespace Bpp.Hmm
open Bpp Bpp.Scalar

variable {α : Type} [Scalar α]

/-- `x = 0; for (k...) x += l[k]` -/
def sumL (l : List α) : α := l.foldl (fun x a => x + a) zero

/-- the vector `g 0, …, g (n-1)` -/
def vec (n : Nat) (g : Nat → α) : List α := (List.range n).map g

def dot (a b : List α) : α := sumL (List.zipWith (fun x y => x * y) a b)

/-- what the alphabet and the transition matrix answer -/
structure Params (α : Type) where
  n : Nat
  P : Nat → Nat → α
  pi : Nat → α

/-- emission probabilities of one site, by hidden state -/
abbrev Emis (α : Type) := Nat → α
/-- a site after the first one: (the chain is reset here, emissions) -/
abbrev Site (α : Type) := Bool × Emis α

/-! ## Break-point control flow -/

/-- `nextBrkPt` for the forward iterator position `bps` (`nbSites_` at `end()`) -/
def nextBrk (nbSites : Nat) : List Nat → Nat
  | [] => nbSites
  | b :: _ => b

/-- forward loop `for i = i0 .. i0+cnt-1`: `if (i < nextBrkPt) normal else {reset; bpIt++}`
(RescaledHmmLikelihood.cpp:136-202 and the same text in the other classes) -/
def fwdFlags (nbSites : Nat) : Nat → Nat → List Nat → List Bool
  | 0, _, _ => []
  | cnt + 1, i, bps =>
    if i < nextBrk nbSites bps then false :: fwdFlags nbSites cnt (i + 1) bps
    else true :: fwdFlags nbSites cnt (i + 1) bps.tail

/-- `nextBrkPt` for the reverse iterator (0 at `rend()`) -/
def nextBrkR : List Nat → Nat
  | [] => 0
  | b :: _ => b

/-- backward loop `for i = cnt .. 1`: `if (i > nextBrkPt) normal else {reset; bpIt++}` on the
reversed break-point vector (RescaledHmmLikelihood.cpp:251-291); flags for i = cnt, cnt-1, …, 1 -/
def bwdFlags : Nat → List Nat → List Bool
  | 0, _ => []
  | i + 1, rbps =>
    if nextBrkR rbps < i + 1 then false :: bwdFlags i rbps
    else true :: bwdFlags i rbps.tail

/-- the sites 1 … T-1 tagged with the forward reset flags -/
def mkSites (es : List (Emis α)) (bps : List Nat) : List (Site α) :=
  List.zip (fwdFlags (es.length + 1) es.length 1 bps) es

/-! ## Shared numeric pieces -/

/-- `trans[jj + k]`, k = 0..n-1, with `trans[ii + j] = Pij(j, i)`: column `j` of the matrix -/
def col (p : Params α) (j : Nat) : List α := vec p.n (fun k => p.P k j)
def piL (p : Params α) : List α := vec p.n p.pi
/-- `if (x < 0) x = 0` -/
def clip (x : α) : α := if ltb x zero then zero else x
/-- `if (scale > 0) lik[j] = tmp[j] / scale else lik[j] = 0` -/
def normalize (tmp : List α) (s : α) : List α := tmp.map (fun t => if gtb s zero then t / s else zero)

/-- `tmp[j]` of the initialisation and of the "reset markov chain" branch of the rescaled class:
`(*emissions)[j] * Σ_k trans[jj+k] * eqFreq[k]` -/
def restartTmp (p : Params α) (e : Emis α) : List α :=
  vec p.n (fun j => e j * dot (col p j) (piL p))

def isNaN (x : α) : Bool := !(eqb x x)

/-- `std::sort(..., greater<double>())` -/
def sortDesc (l : List α) : List α := l.mergeSort (fun a b => geb a b)

/-! ## RescaledHmmLikelihood::computeForward_ (RescaledHmmLikelihood.cpp:92-220) -/

/-- the check of the transition probabilities at the top of `computeForward_` (lines 100-111):
an exception is thrown for a NaN or negative entry -/
def transOk (p : Params α) : Bool :=
  (List.range p.n).all (fun i => (List.range p.n).all (fun j => !(isNaN (p.P j i)) && !(ltb (p.P j i) zero)))

/-- `tmp` at a site ≥ 1 (lines 148-196): only the normal branch clips negative values -/
def rescTmp (p : Params α) (brk : Bool) (e : Emis α) (prev : List α) : List α :=
  if brk then restartTmp p e
  else vec p.n (fun j => clip (e j * dot (col p j) prev))

/-- one entry per site: (likelihood_[i*n ..], scales_[i]) -/
def rescLoop (p : Params α) : List (Site α) → List α → List (List α × α)
  | [], _ => []
  | (b, e) :: rest, prev =>
    let tmp := rescTmp p b e prev
    let s := sumL tmp
    let f := normalize tmp s
    (f, s) :: rescLoop p rest f

structure RescFwd (α : Type) where
  lik : List (List α)
  scales : List α
  logLik : α

/-- the first site is computed like a reset site (lines 113-133) -/
def rescForward (p : Params α) (e0 : Emis α) (sites : List (Site α)) : RescFwd α :=
  let r := rescLoop p ((true, e0) :: sites) []
  { lik := r.map (·.1), scales := r.map (·.2), logLik := sumL (sortDesc (r.map (fun x => log x.2))) }

/-! ## LowMemoryRescaledHmmLikelihood::computeForward_ (LowMemoryRescaledHmmLikelihood.cpp:85-229) -/

/-- `tmp` at a site ≥ 1: both branches clip every product and the result (lines 146-194) -/
def lowTmp (p : Params α) (brk : Bool) (e : Emis α) (prev : List α) : List α :=
  let src := if brk then piL p else prev
  vec p.n (fun j => clip (e j * sumL (List.zipWith (fun t v => clip (t * v)) (col p j) src)))

/-- `pending` = the log-scales written in `lScales` since the last flush (most recent first),
`acc` = `logLik_` -/
def lowLoop (p : Params α) (maxSize : Nat) : List (Site α) → List α → α → List α → α
  | [], _, acc, pending => acc + sumL (sortDesc pending)
  | (b, e) :: rest, prev, acc, pending =>
    let tmp := lowTmp p b e prev
    let s := sumL tmp
    let f := normalize tmp s
    if pending.length == maxSize then
      lowLoop p maxSize rest f (acc + sumL (sortDesc pending)) [log s]
    else
      lowLoop p maxSize rest f acc (log s :: pending)

def lowForward (p : Params α) (maxSize : Nat) (e0 : Emis α) (sites : List (Site α)) : α :=
  let tmp := restartTmp p e0
  let s := sumL tmp
  lowLoop p maxSize sites (normalize tmp s) zero [log s]

/-! ## LogsumHmmLikelihood::computeForward_ (LogsumHmmLikelihood.cpp:98-200) -/

/-- NumTools::logsum (NumTools.h:96), as repaired for equal arguments (two log-zeros) -/
def logsum (lnx lny : α) : α :=
  if eqb lnx lny then lnx + log (ofInt 2)
  else if ltb lny lnx then lnx + log (one + exp (lny - lnx))
  else lny + log (one + exp (lnx - lny))

/-- `x = l[0]; for k ≥ 1: x = logsum(x, l[k])`.  The code reads `l[0]` unconditionally; the empty
case (no hidden state) is outside the model's domain (every theorem assumes `0 < n`, the driver
refuses to build such an object). -/
def lseL : List α → α
  | [] => zero
  | x :: xs => xs.foldl logsum x

def logCol (p : Params α) (j : Nat) : List α := vec p.n (fun k => log (p.P k j))
def logPi (p : Params α) : List α := vec p.n (fun k => log (p.pi k))

def logTmp (p : Params α) (brk : Bool) (e : Emis α) (prev : List α) : List α :=
  let src := if brk then logPi p else prev
  vec p.n (fun j => log (e j) + lseL (List.zipWith (fun a b => a + b) (logCol p j) src))

/-- (logLikelihood_ per site ≥ 1, partialLogLikelihoods_ from here on) -/
def logLoop (p : Params α) : List (Site α) → List α → List (List α) × List α
  | [], prev => ([], [lseL prev])
  | (b, e) :: rest, prev =>
    let cur := logTmp p b e prev
    let r := logLoop p rest cur
    (cur :: r.1, if b then lseL prev :: r.2 else r.2)

structure LogFwd (α : Type) where
  logLik : List (List α)
  partials : List α
  ll : α

def logForward (p : Params α) (e0 : Emis α) (sites : List (Site α)) : LogFwd α :=
  let f0 := logTmp p true e0 []
  let r := logLoop p sites f0
  { logLik := f0 :: r.1, partials := r.2, ll := sumL (sortDesc r.2) }

/-! ## Specification: sum over all hidden paths -/

/-- all sequences of `T` hidden states -/
def allPaths (n : Nat) : Nat → List (List Nat)
  | 0 => [[]]
  | T + 1 => (List.range n).flatMap (fun y => (allPaths n T).map (fun ys => y :: ys))

/-- probability that a (re)started chain is in state `y`: one transition from the equilibrium
frequencies, `Σ_k pi k · P k y` (equal to `pi y` when `pi` is stationary) -/
def initW (p : Params α) (y : Nat) : α := dot (col p y) (piL p)

/-- weight of the hidden path `ys` through `sites`, coming from state `prev` -/
def pathW (p : Params α) : Nat → List (Site α) → List Nat → α
  | _, [], _ => one
  | _, _ :: _, [] => zero
  | prev, (b, e) :: rest, y :: ys => (if b then initW p y else p.P prev y) * e y * pathW p y rest ys

/-- Σ over all hidden paths of π·Π transitions·Π emissions, restarted at the flagged sites -/
def pathSum (p : Params α) (e0 : Emis α) (sites : List (Site α)) : α :=
  sumL ((allPaths p.n (sites.length + 1)).map (pathW p 0 ((true, e0) :: sites)))

/-- the unscaled forward recursion with restarts: `acc` = product of the totals of the finished
segments, `prev` = forward vector of the current segment -/
def fwdULoop (p : Params α) : List (Site α) → α → List α → α
  | [], acc, prev => acc * sumL prev
  | (b, e) :: rest, acc, prev =>
    if b then fwdULoop p rest (acc * sumL prev) (restartTmp p e)
    else fwdULoop p rest acc (vec p.n (fun j => e j * dot (col p j) prev))

def fwdU (p : Params α) (e0 : Emis α) (sites : List (Site α)) : α :=
  fwdULoop p sites one (restartTmp p e0)

end Bpp.Hmm
