import BppModel.Prelude.Scalar
/-
Model of the HMM likelihood classes of src/Bpp/Numeric/Hmm:
  RescaledHmmLikelihood.cpp, LowMemoryRescaledHmmLikelihood.cpp, LogsumHmmLikelihood.cpp
(+ NumTools::logsum, NumTools.h:96), generic over `Scalar α` (Float in the driver, ℝ in the proofs).

Inputs of the model (what the HmmStateAlphabet / HmmTransitionMatrix / HmmEmissionProbabilities
objects answer): the number of hidden states `n`, `P i j = Pij(i,j)`,
`pi k = getEquilibriumFrequencies()[k]`, and per site the emission vector `e j`.

Transcription conventions
 * a C++ `x = 0; for k: x += a_k` is `sumL` (left fold from `zero`), a row/column of a flat
   array is a `List` built by `vec n`;
 * the control flow on break points only depends on the break-point vector and the site index:
   it is transcribed once (`fwdFlags`: forward iterator `bpIt`/`nextBrkPt`; `bwdFlags`: reverse
   iterator) and the numeric loops run over sites tagged with the resulting "reset here" flag;
 * `std::sort` with `greater<double>` followed by a summation is `sumL (sortDesc l)`: the proofs
   only use that the sorted vector is a permutation;
 * the model follows the repaired code (fix commits in findings/C13.json): the division by the
   first scale factor is guarded like all the others; the low-memory class flushes its buffer of
   log-scales when it is full *before* writing the next one; `NumTools::logsum` of equal arguments;
   the derivative cache names are forgotten by `fireParameterChanged` / `setBreakPoints`; `setBreakPoints`
   refuses a vector that is not strictly increasing within `1 … nbSites-1`; the second
   derivative resets `d2Scales_` / `d2LogLik_`; the auto-correlation matrix holds its stationary vector.

Contents: break-point control flow · forward recursions of the three classes · backward recursions
and posteriors (rescaled, log-sum) · first/second derivative recursions (rescaled) · the cache state
machines `RescObj` / `LogObj` / `LowObj` with their cache-free specifications · `AutoTM` · the
specification (`pathSum`, `pathMarginal`, `fwdU`).
-/
namespace Bpp.Hmm
open Bpp Bpp.Scalar

/-- `std::isinf`: only the `Float` reading of the model has infinities -/
class HasIsInf (α : Type) where
  isInf : α → Bool
instance : HasIsInf Float := ⟨Float.isInf⟩
instance : HasIsInf Rat := ⟨fun _ => false⟩

variable {α : Type} [Scalar α]

/-- `x = 0; for (k...) x += l[k]` -/
def sumL (l : List α) : α := l.foldl (fun x a => x + a) zero

/-- the vector `g 0, …, g (n-1)` -/
def vec (n : Nat) (g : Nat → α) : List α := (List.range n).map g

def dot (a b : List α) : α := sumL (List.zipWith (fun x y => x * y) a b)

/-- what the alphabet and the transition matrix answer -/
structure Params (α : Type) where
  n : Nat
  P : Nat → Nat → α
  pi : Nat → α

/-- emission probabilities of one site, by hidden state -/
abbrev Emis (α : Type) := Nat → α
/-- a site after the first one: (the chain is reset here, emissions) -/
abbrev Site (α : Type) := Bool × Emis α

/-! ## Break-point control flow -/

/-- `nextBrkPt` for the forward iterator position `bps` (`nbSites_` at `end()`) -/
def nextBrk (nbSites : Nat) : List Nat → Nat
  | [] => nbSites
  | b :: _ => b

/-- forward loop `for i = i0 .. i0+cnt-1`: `if (i < nextBrkPt) normal else {reset; bpIt++}`
(RescaledHmmLikelihood.cpp:136-202 and the same text in the other classes) -/
def fwdFlags (nbSites : Nat) : Nat → Nat → List Nat → List Bool
  | 0, _, _ => []
  | cnt + 1, i, bps =>
    if i < nextBrk nbSites bps then false :: fwdFlags nbSites cnt (i + 1) bps
    else true :: fwdFlags nbSites cnt (i + 1) bps.tail

/-- `nextBrkPt` for the reverse iterator (0 at `rend()`) -/
def nextBrkR : List Nat → Nat
  | [] => 0
  | b :: _ => b

/-- backward loop `for i = cnt .. 1`: `if (i > nextBrkPt) normal else {reset; bpIt++}` on the
reversed break-point vector (RescaledHmmLikelihood.cpp:251-291); flags for i = cnt, cnt-1, …, 1 -/
def bwdFlags : Nat → List Nat → List Bool
  | 0, _ => []
  | i + 1, rbps =>
    if nextBrkR rbps < i + 1 then false :: bwdFlags i rbps
    else true :: bwdFlags i rbps.tail

/-- `AbstractHmmLikelihood::checkBreakPoints_` (HmmLikelihood.cpp:57-66): every entry is a position in
`1 … nbSites-1` and larger than the one before; `false` = it throws -/
def breaksOkFrom (nbSites : Nat) : Option Nat → List Nat → Bool
  | _, [] => true
  | prev, b :: bs =>
    !(b == 0 || decide (nbSites ≤ b)) && (match prev with | some q => decide (q < b) | none => true)
      && breaksOkFrom nbSites (some b) bs

def breaksOk (nbSites : Nat) (bps : List Nat) : Bool := breaksOkFrom nbSites none bps

/-- the sites 1 … T-1 tagged with the forward reset flags -/
def mkSites (es : List (Emis α)) (bps : List Nat) : List (Site α) :=
  List.zip (fwdFlags (es.length + 1) es.length 1 bps) es

/-! ## Shared numeric pieces -/

/-- `trans[jj + k]`, k = 0..n-1, with `trans[ii + j] = Pij(j, i)`: column `j` of the matrix -/
def col (p : Params α) (j : Nat) : List α := vec p.n (fun k => p.P k j)
def piL (p : Params α) : List α := vec p.n p.pi
/-- `if (x < 0) x = 0` -/
def clip (x : α) : α := if ltb x zero then zero else x
/-- `if (scale > 0) lik[j] = tmp[j] / scale else lik[j] = 0` -/
def normalize (tmp : List α) (s : α) : List α := tmp.map (fun t => if gtb s zero then t / s else zero)

/-- `tmp[j]` of the initialisation and of the "reset markov chain" branch of the rescaled class:
`(*emissions)[j] * Σ_k trans[jj+k] * eqFreq[k]` -/
def restartTmp (p : Params α) (e : Emis α) : List α :=
  vec p.n (fun j => e j * dot (col p j) (piL p))

def isNaN (x : α) : Bool := !(eqb x x)

/-- `std::sort(..., greater<double>())` -/
def sortDesc (l : List α) : List α := l.mergeSort (fun a b => geb a b)

/-! ## RescaledHmmLikelihood::computeForward_ (RescaledHmmLikelihood.cpp:92-220) -/

/-- the check of the transition probabilities at the top of `computeForward_` (lines 100-111):
an exception is thrown for a NaN or negative entry -/
def transOk (p : Params α) : Bool :=
  (List.range p.n).all (fun i => (List.range p.n).all (fun j => !(isNaN (p.P j i)) && !(ltb (p.P j i) zero)))

/-- `tmp` at a site ≥ 1 (lines 148-196): only the normal branch clips negative values -/
def rescTmp (p : Params α) (brk : Bool) (e : Emis α) (prev : List α) : List α :=
  if brk then restartTmp p e
  else vec p.n (fun j => clip (e j * dot (col p j) prev))

/-- one entry per site: (likelihood_[i*n ..], scales_[i]) -/
def rescLoop (p : Params α) : List (Site α) → List α → List (List α × α)
  | [], _ => []
  | (b, e) :: rest, prev =>
    let tmp := rescTmp p b e prev
    let s := sumL tmp
    let f := normalize tmp s
    (f, s) :: rescLoop p rest f

structure RescFwd (α : Type) where
  lik : List (List α)
  scales : List α
  logLik : α

/-- the first site is computed like a reset site (lines 113-133) -/
def rescForward (p : Params α) (e0 : Emis α) (sites : List (Site α)) : RescFwd α :=
  let r := rescLoop p ((true, e0) :: sites) []
  { lik := r.map (·.1), scales := r.map (·.2), logLik := sumL (sortDesc (r.map (fun x => log x.2))) }

/-! ## LowMemoryRescaledHmmLikelihood::computeForward_ (LowMemoryRescaledHmmLikelihood.cpp:85-229) -/

/-- `tmp` at a site ≥ 1: both branches clip every product and the result (lines 146-194) -/
def lowTmp (p : Params α) (brk : Bool) (e : Emis α) (prev : List α) : List α :=
  let src := if brk then piL p else prev
  vec p.n (fun j => clip (e j * sumL (List.zipWith (fun t v => clip (t * v)) (col p j) src)))

/-- `pending` = the log-scales written in `lScales` since the last flush (most recent first),
`acc` = `logLik_` -/
def lowLoop (p : Params α) (maxSize : Nat) : List (Site α) → List α → α → List α → α
  | [], _, acc, pending => acc + sumL (sortDesc pending)
  | (b, e) :: rest, prev, acc, pending =>
    let tmp := lowTmp p b e prev
    let s := sumL tmp
    let f := normalize tmp s
    if pending.length == maxSize then
      lowLoop p maxSize rest f (acc + sumL (sortDesc pending)) [log s]
    else
      lowLoop p maxSize rest f acc (log s :: pending)

def lowForward (p : Params α) (maxSize : Nat) (e0 : Emis α) (sites : List (Site α)) : α :=
  let tmp := restartTmp p e0
  let s := sumL tmp
  lowLoop p maxSize sites (normalize tmp s) zero [log s]

/-! ## LogsumHmmLikelihood::computeForward_ (LogsumHmmLikelihood.cpp:98-200) -/

/-- NumTools::logsum (NumTools.h:96), as repaired for equal arguments (two log-zeros) -/
def logsum (lnx lny : α) : α :=
  if eqb lnx lny then lnx + log (ofInt 2)
  else if ltb lny lnx then lnx + log (one + exp (lny - lnx))
  else lny + log (one + exp (lnx - lny))

/-- `x = l[0]; for k ≥ 1: x = logsum(x, l[k])`.  The code reads `l[0]` unconditionally; the empty
case (no hidden state) is outside the model's domain (every theorem assumes `0 < n`, the driver
refuses to build such an object). -/
def lseL : List α → α
  | [] => zero
  | x :: xs => xs.foldl logsum x

def logCol (p : Params α) (j : Nat) : List α := vec p.n (fun k => log (p.P k j))
def logPi (p : Params α) : List α := vec p.n (fun k => log (p.pi k))

def logTmp (p : Params α) (brk : Bool) (e : Emis α) (prev : List α) : List α :=
  let src := if brk then logPi p else prev
  vec p.n (fun j => log (e j) + lseL (List.zipWith (fun a b => a + b) (logCol p j) src))

/-- (logLikelihood_ per site ≥ 1, partialLogLikelihoods_ from here on) -/
def logLoop (p : Params α) : List (Site α) → List α → List (List α) × List α
  | [], prev => ([], [lseL prev])
  | (b, e) :: rest, prev =>
    let cur := logTmp p b e prev
    let r := logLoop p rest cur
    (cur :: r.1, if b then lseL prev :: r.2 else r.2)

structure LogFwd (α : Type) where
  logLik : List (List α)
  partials : List α
  ll : α

def logForward (p : Params α) (e0 : Emis α) (sites : List (Site α)) : LogFwd α :=
  let f0 := logTmp p true e0 []
  let r := logLoop p sites f0
  { logLik := f0 :: r.1, partials := r.2, ll := sumL (sortDesc r.2) }

/-! ## RescaledHmmLikelihood::computeBackward_ and posteriors (RescaledHmmLikelihood.cpp:224-366) -/

def onesV (p : Params α) : List α := vec p.n (fun _ => one)
def mulV (a b : List α) : List α := List.zipWith (fun x y => x * y) a b

/-- `backLikelihood_[i-1]` from `backLikelihood_[i]` (= `bnext`), the emissions and the scale of
site `i`: `x += e[k] * trans[jj+k] * back[i][k]` with `trans[jj+k] = Pij(j,k)`, then `x / scales_[i]`
(no guard on the division); all ones at a reset -/
def backStep (p : Params α) (brk : Bool) (e : Emis α) (c : α) (bnext : List α) : List α :=
  if brk then onesV p
  else vec p.n (fun j => dot (vec p.n (fun k => e k * p.P j k)) bnext / c)

/-- the loop `for i = T-1 … 1` written as a recursion on the sites `i, i+1, …` (the tail is
computed first, exactly the order of the C++ loop); result: `back[i-1], back[i], …, back[T-1]` -/
def backAll (p : Params α) : List (Bool × Emis α × α) → List (List α)
  | [] => [onesV p]
  | (b, e, c) :: rest =>
    match backAll p rest with
    | [] => []
    | bn :: r => backStep p b e c bn :: bn :: r

/-- `es` = emissions of the sites 1 … T-1, `scales` = `scales_` (all sites) -/
def rescBackward (p : Params α) (es : List (Emis α)) (scales : List α) (bps : List Nat) : List (List α) :=
  backAll p (List.zip (bwdFlags es.length bps.reverse).reverse (List.zip es scales.tail))

/-- `probs[i][j] = likelihood_[i*n+j] * backLikelihood_[i][j]` -/
def posteriorOf (lik back : List (List α)) : List (List α) := List.zipWith mulV lik back

def rescPosterior (p : Params α) (e0 : Emis α) (es : List (Emis α)) (bps : List Nat) : List (List α) :=
  let fw := rescForward p e0 (mkSites es bps)
  posteriorOf fw.lik (rescBackward p es fw.scales bps)

/-- `getLikelihoodForASite`: `Σ_i probs[i] * e(site, i)` -/
def siteLik (p : Params α) (post : List α) (e : Emis α) : α := dot post (vec p.n e)

/-! ## LogsumHmmLikelihood::computeBackward_ and posteriors (LogsumHmmLikelihood.cpp:205-376) -/

def zerosV (p : Params α) : List α := vec p.n (fun _ => zero)

def logBackStep (p : Params α) (brk : Bool) (e : Emis α) (bnext : List α) : List α :=
  if brk then zerosV p
  else vec p.n (fun j => lseL (List.zipWith (fun a b => a + b) (vec p.n (fun k => log (e k) + log (p.P j k))) bnext))

def logBackAll (p : Params α) : List (Bool × Emis α) → List (List α)
  | [] => [zerosV p]
  | (b, e) :: rest =>
    match logBackAll p rest with
    | [] => []
    | bn :: r => logBackStep p b e bn :: bn :: r

def logBackward (p : Params α) (es : List (Emis α)) (bps : List Nat) : List (List α) :=
  logBackAll p (List.zip (bwdFlags es.length bps.reverse).reverse es)

/-- index into `partialLogLikelihoods_` used by `getHiddenStatesPosteriorProbabilities` for the
sites `i, i+1, …` (lines 348-362: `if (i == nextBrkPt) { logLikIt++; bpIt++; … }`) -/
def logPostIdx (nbSites : Nat) : Nat → Nat → List Nat → Nat → List Nat
  | 0, _, _, _ => []
  | cnt + 1, i, bps, idx =>
    if i == nextBrk nbSites bps then (idx + 1) :: logPostIdx nbSites cnt (i + 1) bps.tail (idx + 1)
    else idx :: logPostIdx nbSites cnt (i + 1) bps idx

/-- index used by `getHiddenStatesPosteriorProbabilitiesForASite` (lines 320-329) -/
def logPostIdx1 (site : Nat) : List Nat → Nat
  | [] => 0
  | b :: bs => if b ≤ site then 1 + logPostIdx1 site bs else 0

/-- `exp(logLikelihood_[i*n+j] + backLogLikelihood_[i][j] - partial)`; `none` = the iterator
`logLikIt` is dereferenced past the end of `partialLogLikelihoods_` (undefined behaviour) -/
def logPostRow (f b : List α) (partial? : Option α) : Option (List α) :=
  partial?.map (fun pl => List.zipWith (fun x y => exp (x + y - pl)) f b)

/-! ## RescaledHmmLikelihood::computeDForward_ (RescaledHmmLikelihood.cpp:370-476)

Transcribed for the correspondence and for the cache state machine; no theorem is stated about the
value.  `pow(x, 2)` is `x * x` (that is what the harness build, `g++ -O1`, emits for it). -/

structure RescDFwd (α : Type) where
  dLik : List (List α)
  dScales : List α
  dLogLik : α

/-- from `likelihood_[i]` (the stored normalised vector), `dTmp` and `scales_[i]`: (dLikelihood_[i], dScales_[i],
dLScales[i]); as repaired: one division by the scale factor (`(dTmp·c − tmp·ds) / c²` underflowed for small `c`) -/
def rescDSite (lik dTmp : List α) (c : α) : List α × α × α :=
  let ds := sumL dTmp
  (List.zipWith (fun dt l => (dt - l * ds) / c) dTmp lik, ds, ds / c)

/-- `tmp`, `dTmp` at a site ≥ 1; the reset branch (and the initialisation) start from `Σ_k eqFreq[k]·P(k,j)` like
`computeForward_` (as repaired: they used `eqFreq[j]`, the derivative of another function unless the vector is stationary) -/
def rescDTmp (p : Params α) (brk : Bool) (e de : Emis α) (prevLik prevDLik : List α) : List α × List α :=
  if brk then (vec p.n (fun j => e j * dot (col p j) (piL p)), vec p.n (fun j => de j * dot (col p j) (piL p)))
  else
    (vec p.n (fun j => e j * dot (col p j) prevLik),
     vec p.n (fun j => de j * dot (col p j) prevLik + e j * sumL (mulV (col p j) prevDLik)))

/-- per site ≥ 1: (flag, emissions, their derivative, likelihood_[i-1], scales_[i]) -/
def rescDLoop (p : Params α) : List (Bool × Emis α × Emis α × (List α × List α) × α) → List α → List (List α × α × α)
  | [], _ => []
  | (b, e, de, (prevLik, lik), c) :: rest, prevDLik =>
    let t := rescDTmp p b e de prevLik prevDLik
    let r := rescDSite lik t.2 c
    r :: rescDLoop p rest r.1

def zip5 {β γ δ ε ζ : Type} : List β → List γ → List δ → List ε → List ζ → List (β × γ × δ × ε × ζ)
  | a :: as, b :: bs, c :: cs, d :: ds, e :: es => (a, b, c, d, e) :: zip5 as bs cs ds es
  | _, _, _, _, _ => []

/-- `fw` = the cached result of `computeForward_` (likelihood_, scales_) -/
def rescDForward (p : Params α) (e0 : Emis α) (es : List (Emis α)) (de0 : Emis α) (des : List (Emis α))
    (bps : List Nat) (fw : RescFwd α) : RescDFwd α :=
  let c0 := fw.scales.headD zero
  let t0 := rescDTmp p true e0 de0 [] []
  let r0 := rescDSite (fw.lik.headD []) t0.2 c0
  let flags := fwdFlags (es.length + 1) es.length 1 bps
  let r := r0 :: rescDLoop p (zip5 flags es des (List.zip fw.lik fw.lik.tail) fw.scales.tail) r0.1
  { dLik := r.map (·.1), dScales := r.map (·.2.1), dLogLik := sumL (sortDesc (r.map (·.2.2))) }

/-! ## RescaledHmmLikelihood::computeD2Forward_ (RescaledHmmLikelihood.cpp:486-602), as repaired
(the accumulators that are reset are `d2Scales_[i]` and `d2LogLik_`; one division by the scale factor). -/

def two : α := ofInt 2

/-- from `likelihood_[i]`, `dLikelihood_[i]`, `d2Tmp`, `scales_[i]`, `dScales_[i]`: (d2Likelihood_[i], d2Scales_[i],
d2LScales[i]); as repaired: `(d2Tmp − 2·dLik·ds − lik·d2s) / c`, one division by the scale factor -/
def rescD2Site (lik dLik d2Tmp : List α) (c ds : α) : List α × α × α :=
  let d2s := sumL d2Tmp
  let row := (List.zip d2Tmp (List.zip lik dLik)).map (fun x =>
    (x.1 - two * x.2.2 * ds - x.2.1 * d2s) / c)
  (row, d2s, d2s / c - (ds / c) * (ds / c))

def rescD2Tmp (p : Params α) (brk : Bool) (e de d2e : Emis α) (prevLik prevDLik prevD2Lik : List α) :
    List α × List α × List α :=
  if brk then (vec p.n (fun j => e j * dot (col p j) (piL p)), vec p.n (fun j => de j * dot (col p j) (piL p)),
    vec p.n (fun j => d2e j * dot (col p j) (piL p)))
  else
    (vec p.n (fun j => e j * dot (col p j) prevLik),
     vec p.n (fun j => de j * dot (col p j) prevLik + e j * sumL (mulV (col p j) prevDLik)),
     vec p.n (fun j => d2e j * dot (col p j) prevLik + two * de j * sumL (mulV (col p j) prevDLik)
                        + e j * sumL (mulV (col p j) prevD2Lik)))

/-- per site ≥ 1: (flag, e, de, d2e, likelihood_[i-1], dLikelihood_[i-1], scales_[i], dScales_[i]) -/
def rescD2Loop (p : Params α) :
    List (Bool × Emis α × Emis α × Emis α × (List α × List α) × (List α × List α) × α × α) → List α → List (List α × α × α)
  | [], _ => []
  | (b, e, de, d2e, (prevLik, lik), (prevDLik, dLik), c, ds) :: rest, prevD2Lik =>
    let t := rescD2Tmp p b e de d2e prevLik prevDLik prevD2Lik
    let r := rescD2Site lik dLik t.2.2 c ds
    r :: rescD2Loop p rest r.1

def zip8 {β γ δ ε ζ η θ ι : Type} : List β → List γ → List δ → List ε → List ζ → List η → List θ → List ι →
    List (β × γ × δ × ε × ζ × η × θ × ι)
  | a :: as, b :: bs, c :: cs, d :: ds, e :: es, f :: fs, g :: gs, h :: hs =>
    (a, b, c, d, e, f, g, h) :: zip8 as bs cs ds es fs gs hs
  | _, _, _, _, _, _, _, _ => []

structure RescD2Fwd (α : Type) where
  d2Scales : List α
  d2LogLik : α

/-- `d2Scales_`, `d2LogLik_`; `fw`, `dfw` = the cached results of `computeForward_` and `computeDForward_` -/
def rescD2Forward (p : Params α) (e0 : Emis α) (es : List (Emis α)) (de0 : Emis α) (des : List (Emis α))
    (d2e0 : Emis α) (d2es : List (Emis α)) (bps : List Nat) (fw : RescFwd α) (dfw : RescDFwd α) : RescD2Fwd α :=
  let t0 := rescD2Tmp p true e0 de0 d2e0 [] [] []
  let r0 := rescD2Site (fw.lik.headD []) (dfw.dLik.headD []) t0.2.2 (fw.scales.headD zero) (dfw.dScales.headD zero)
  let flags := fwdFlags (es.length + 1) es.length 1 bps
  let r := r0 :: rescD2Loop p (zip8 flags es des d2es (List.zip fw.lik fw.lik.tail) (List.zip dfw.dLik dfw.dLik.tail)
    fw.scales.tail dfw.dScales.tail) r0.1
  { d2Scales := r.map (·.2.1), d2LogLik := sumL (sortDesc (r.map (·.2.2))) }

/-! ## LogsumHmmLikelihood::computeDForward_ / computeD2Forward_ (LogsumHmmLikelihood.cpp:378-598), as repaired
(`num -= VectorTools::max(num)`; the second-order recursion has the `d2e/e - (de/e)^2` term of the
current position and leaves the first-order partials alone).

`VectorTools::max` (VectorTools.h:1127), `operator-=(vector, scalar)` (:294), `sumExp` (2 overloads,
:726-769) are transcribed here over `Scalar` (C07's model `LogSpace` reads the same text over another
interface).  An exception (`DimensionException`, `BadNumberException` for an infinite maximum) is
`none`.  `VectorTools::max` of an empty vector throws: no hidden state is outside the model's domain. -/

section LogDeriv
variable [HasIsInf α]

/-- `maxi = v[0]; for i ≥ 1: if (v[i] > maxi) maxi = v[i]` -/
def vmaxL : List α → α
  | [] => zero
  | x :: xs => xs.foldl (fun m y => if gtb y m then y else m) x

/-- `num[kp] = logLikelihood_[iip + kp]; num -= VectorTools::max(num)` -/
def shiftMax (l : List α) : List α := let M := vmaxL l; l.map (fun x => x - M)

/-- `VectorTools::sumExp(v1)`: Σ exp(v1_i) -/
def sumExp1 (v1 : List α) : α :=
  match v1 with
  | [x] => exp x
  | _ =>
    let M := vmaxL v1
    if HasIsInf.isInf M then (if ltb M zero then zero else M)
    else
      match v1 with
      | [] => zero
      | x0 :: rest => (rest.foldl (fun y z => y + exp (z - M)) (exp (x0 - M))) * exp M

/-- `VectorTools::sumExp(v1, v2)`: Σ v2_i·exp(v1_i) -/
def sumExpW (v1 v2 : List α) : Option α :=
  if v1.length ≠ v2.length then none
  else
    match v1, v2 with
    | [x], [w] => some (w * exp x)
    | x0 :: r1, w0 :: r2 =>
      let M := vmaxL v1
      if HasIsInf.isInf M then none
      else some (((List.zip r1 r2).foldl (fun x (q : α × α) => x + q.2 * exp (q.1 - M)) (w0 * exp (x0 - M))) * exp M)
    | _, _ => none

def addV (a b : List α) : List α := List.zipWith (fun x y => x + y) a b

/-- `(*dEmissions)[j] / (*emissions)[j]`, j = 0..n-1 -/
def dRatio (p : Params α) (e de : Emis α) : List α := vec p.n (fun j => de j / e j)

/-- `sumExp(num, dLogLikelihood_[i-1]) / sumExp(num)`: derivative of the log-likelihood of a finished segment -/
def logDPartial (num prevD : List α) : Option α :=
  (sumExpW num prevD).map (fun x => x / sumExp1 num)

/-- `dLogLikelihood_[i]` from `num` (shifted `logLikelihood_[i-1]`) and `dLogLikelihood_[i-1]` (:427-445) -/
def logDRow (p : Params α) (brk : Bool) (e de : Emis α) (num prevD : List α) : Option (List α) :=
  if brk then some (dRatio p e de)
  else (List.range p.n).mapM (fun j =>
    match sumExpW num (mulV prevD (col p j)), sumExpW num (col p j) with
    | some a, some b => some (de j / e j + a / b)
    | _, _ => none)

/-- per site ≥ 1: (flag, e, de, logLikelihood_[i-1]); `prevLast` = `logLikelihood_[T-1]` for the termination.
Result: (dLogLikelihood_ rows from here on, partialDLogLikelihoods_ from here on) -/
def logDLoop (p : Params α) (lastLL : List α) : List (Bool × Emis α × Emis α × List α) → List α →
    Option (List (List α) × List α)
  | [], prevD => (logDPartial (shiftMax lastLL) prevD).map (fun x => ([], [x]))
  | (b, e, de, prevLL) :: rest, prevD =>
    let num := shiftMax prevLL
    match logDRow p b e de num prevD with
    | none => none
    | some cur =>
      match (if b then (logDPartial num prevD).map some else some none), logDLoop p lastLL rest cur with
      | some part, some r => some (cur :: r.1, match part with | some x => x :: r.2 | none => r.2)
      | _, _ => none

def zip4 {β γ δ ε : Type} : List β → List γ → List δ → List ε → List (β × γ × δ × ε)
  | a :: as, b :: bs, c :: cs, d :: ds => (a, b, c, d) :: zip4 as bs cs ds
  | _, _, _, _ => []

structure LogDFwd (α : Type) where
  dLog : List (List α)
  partials : List α
  dLogLik : α

/-- `computeDForward_`; `fw` = the cached result of `computeForward_` (logLikelihood_); `none` = it throws -/
def logDForward (p : Params α) (e0 : Emis α) (es : List (Emis α)) (de0 : Emis α) (des : List (Emis α))
    (bps : List Nat) (fw : LogFwd α) : Option (LogDFwd α) :=
  let d0 := dRatio p e0 de0
  let flags := fwdFlags (es.length + 1) es.length 1 bps
  (logDLoop p (fw.logLik.getLastD []) (zip4 flags es des fw.logLik) d0).map (fun r =>
    { dLog := d0 :: r.1, partials := r.2, dLogLik := sumL (sortDesc r.2) })

/-- `d2e/e - pow(de/e, 2)`, j = 0..n-1 -/
def d2Ratio (p : Params α) (e de d2e : Emis α) : List α := vec p.n (fun j => d2e j / e j - (de j / e j) * (de j / e j))

/-- `sumExp(num, num2) / den - pow(sumExp(num, dLog[i-1]) / den, 2)` with `num2 = dLog[i-1]² + d2Log[i-1]`, `den = sumExp(num)` -/
def logD2Partial (num prevD prevD2 : List α) : Option α :=
  let den := sumExp1 num
  match sumExpW num (addV (mulV prevD prevD) prevD2), sumExpW num prevD with
  | some a, some b => some (a / den - (b / den) * (b / den))
  | _, _ => none

/-- `d2LogLikelihood_[i]` (:536-563) -/
def logD2Row (p : Params α) (brk : Bool) (e de d2e : Emis α) (num prevD prevD2 : List α) : Option (List α) :=
  if brk then some (d2Ratio p e de d2e)
  else (List.range p.n).mapM (fun j =>
    match sumExpW num (col p j), sumExpW num (mulV (addV (mulV prevD prevD) prevD2) (col p j)),
          sumExpW num (mulV prevD (col p j)) with
    | some den, some a, some b =>
      some (d2e j / e j - (de j / e j) * (de j / e j) + a / den - (b / den) * (b / den))
    | _, _, _ => none)

/-- per site ≥ 1: (flag, e, de, d2e, logLikelihood_[i-1], dLogLikelihood_[i-1]); carries `d2LogLikelihood_[i-1]`;
`lastD` = `dLogLikelihood_[T-1]`.  Result: (d2LogLikelihood_ rows from here on, partialD2LogLikelihoods_) -/
def logD2Loop (p : Params α) (lastLL lastD : List α) :
    List (Bool × Emis α × Emis α × Emis α × List α × List α) → List α → Option (List (List α) × List α)
  | [], prevD2 => (logD2Partial (shiftMax lastLL) lastD prevD2).map (fun x => ([], [x]))
  | (b, e, de, d2e, prevLL, prevD) :: rest, prevD2 =>
    let num := shiftMax prevLL
    match logD2Row p b e de d2e num prevD prevD2 with
    | none => none
    | some cur =>
      match (if b then (logD2Partial num prevD prevD2).map some else some none), logD2Loop p lastLL lastD rest cur with
      | some part, some r => some (cur :: r.1, match part with | some x => x :: r.2 | none => r.2)
      | _, _ => none

def zip6 {β γ δ ε ζ η : Type} : List β → List γ → List δ → List ε → List ζ → List η → List (β × γ × δ × ε × ζ × η)
  | a :: as, b :: bs, c :: cs, d :: ds, e :: es, f :: fs => (a, b, c, d, e, f) :: zip6 as bs cs ds es fs
  | _, _, _, _, _, _ => []

structure LogD2Fwd (α : Type) where
  d2Log : List (List α)
  partials : List α
  d2LogLik : α

/-- `computeD2Forward_` after its call of `getFirstOrderDerivative(d2Variable_)`; `dfw` = the cached
first-order arrays (of the same variable) -/
def logD2Forward (p : Params α) (e0 : Emis α) (es : List (Emis α)) (de0 : Emis α) (des : List (Emis α))
    (d2e0 : Emis α) (d2es : List (Emis α)) (bps : List Nat) (fw : LogFwd α) (dfw : LogDFwd α) : Option (LogD2Fwd α) :=
  let flags := fwdFlags (es.length + 1) es.length 1 bps
  let r0 := d2Ratio p e0 de0 d2e0
  (logD2Loop p (fw.logLik.getLastD []) (dfw.dLog.getLastD []) (zip6 flags es des d2es fw.logLik dfw.dLog) r0).map
    (fun r => { d2Log := r0 :: r.1, partials := r.2, d2LogLik := sumL (sortDesc r.2) })

/-! ### get(D|D2)LogLikelihoodForASite of the log-sum class (LogsumHmmLikelihood.cpp:476-497, 618-641), as repaired:
the term of a site is the derivative of the log-likelihood of its segment up to the site minus the one up
to the previous site (the rescaled class answers `dScales_[site] / scales_[site]`, the same quantity) -/

/-- `firstOfSegment`: `site == 0 || find(breakPoints_, site) != end` -/
def firstOfSegment (bps : List Nat) (site : Nat) : Bool := site == 0 || bps.contains site

/-- `outer` = the array is not indexed out of range; `inner` = no exception -/
def logDSiteOf (fw : LogFwd α) (dLog : List (List α)) (bps : List Nat) (site : Nat) : Option (Option α) :=
  let pre (i : Nat) : Option (Option α) :=
    match fw.logLik[i]?, dLog[i]? with
    | some ll, some d => some (logDPartial (shiftMax ll) d)
    | _, _ => none
  if firstOfSegment bps site then pre site
  else match pre site, pre (site - 1) with
    | some (some a), some (some b) => some (some (a - b))
    | some _, some _ => some none
    | _, _ => none

def logD2SiteOf (fw : LogFwd α) (dLog d2Log : List (List α)) (bps : List Nat) (site : Nat) : Option (Option α) :=
  let pre (i : Nat) : Option (Option α) :=
    match fw.logLik[i]?, dLog[i]?, d2Log[i]? with
    | some ll, some d, some d2 => some (logD2Partial (shiftMax ll) d d2)
    | _, _, _ => none
  if firstOfSegment bps site then pre site
  else match pre site, pre (site - 1) with
    | some (some a), some (some b) => some (some (a - b))
    | some _, some _ => some none
    | _, _ => none

end LogDeriv

/-! ## The cache state machine of the likelihood objects

`Tables` = what the alphabet / transition matrix / emission objects answer at a given time (the
parameter plumbing itself — `ParameterList::matchParametersValues` — is not modelled: an update is
"the tables change, then `fireParameterChanged` runs"). -/

structure Tables (α : Type) where
  p : Params α
  e0 : Emis α
  es : List (Emis α)
  /-- `getDEmissionProbabilities` after `computeDEmissionProbabilities(variable)` -/
  dE : String → Emis α × List (Emis α)
  /-- `getD2EmissionProbabilities` after `computeD2EmissionProbabilities(variable)` -/
  d2E : String → Emis α × List (Emis α)

/-- `nbSites_` -/
def Tables.T (t : Tables α) : Nat := t.es.length + 1

/-- answers; `exc` = an exception reaches the caller -/
inductive Ans (α : Type) where
  | exc
  /-- undefined behaviour in the C++: a `std::vector` is indexed out of range / an iterator is
  dereferenced past the end -/
  | ub
  | val (x : α)
  | mat (m : List (List α))
deriving DecidableEq

inductive Op (α : Type) where
  /-- `setParameterValue` / `setParameters`: new tables, then `fireParameterChanged` -/
  | setTables (t : Tables α)
  | setBreaks (bps : List Nat)
  | logLik
  /-- `getHiddenStatesPosteriorProbabilities(probs, false)` on an empty vector -/
  | posterior
  /-- `getHiddenStatesPosteriorProbabilities(probs, append)` where `probs` holds the rows `buf` on entry;
  the answer is `probs` on return -/
  | posteriorInto (buf : List (List α)) (append : Bool)
  /-- `getHiddenStatesPosteriorProbabilitiesForASite(site)` -/
  | posteriorSite (site : Nat)
  /-- `getLikelihoodForASite(site)` -/
  | siteLik (site : Nat)
  /-- `getLikelihoodForEachSite()` -/
  | siteLiks
  /-- `getFirstOrderDerivative(var)` -/
  | d1 (var : String)
  /-- `getSecondOrderDerivative(var)` -/
  | d2 (var : String)
  /-- `getDLogLikelihoodForASite(site)` -/
  | dSite (site : Nat)
  /-- `getD2LogLikelihoodForASite(site)` -/
  | d2Site (site : Nat)

/-- the variable of the cached first-order arrays after an operation (`dVariable_`) -/
def nextDv (dv d2v : String) : Op α → String
  | .setTables _ | .setBreaks _ => ""
  | .d1 var => var
  | .d2 var => if var != d2v then var else dv
  | _ => dv

/-- the variable of the cached second-order arrays after an operation (`d2Variable_`) -/
def nextD2v (d2v : String) : Op α → String
  | .setTables _ | .setBreaks _ => ""
  | .d2 var => var
  | _ => d2v

/-- the per-site derivative accessors are asked only while the arrays they read belong to the current
parameter values (a first-order derivative was asked since the last update; for the second-order
accessor also a second-order one) -/
def derivNamesOk (dv d2v : String) : List (Op α) → Bool
  | [] => true
  | op :: ops =>
    (match op with
     | .dSite _ => dv != ""
     | .d2Site _ => dv != "" && d2v != ""
     | _ => true) && derivNamesOk (nextDv dv d2v op) (nextD2v d2v op) ops

/-! ### RescaledHmmLikelihood -/

structure RescObj (α : Type) where
  tab : Tables α
  bps : List Nat
  fw : RescFwd α
  back : List (List α)
  backUpToDate : Bool
  dVar : String
  dfw : RescDFwd α
  d2Var : String
  d2fw : RescD2Fwd α

/-- `computeForward_`: `none` = throws (negative / NaN transition probability) before writing anything -/
def rescCompute (t : Tables α) (bps : List Nat) : Option (RescFwd α) :=
  if transOk t.p then some (rescForward t.p t.e0 (mkSites t.es bps)) else none

def emptyD : RescDFwd α := { dLik := [], dScales := [], dLogLik := zero }
def emptyD2 : RescD2Fwd α := { d2Scales := [], d2LogLik := zero }

/-- the constructor; `none` = it throws -/
def RescObj.build (t : Tables α) : Option (RescObj α) :=
  (rescCompute t []).map (fun fw =>
    { tab := t, bps := [], fw := fw, back := [], backUpToDate := false, dVar := "", dfw := emptyD,
      d2Var := "", d2fw := emptyD2 })

/-- `(*emissionProbabilities_)(site)`; `none` = no such position (the C++ indexes out of range) -/
def Tables.emisAt (t : Tables α) (site : Nat) : Option (Emis α) :=
  match site with
  | 0 => some t.e0
  | s + 1 => t.es[s]?

/-- `ret[i] = Σ_j vv[i][j] * e(i, j)` -/
def siteLiksOf (t : Tables α) (post : List (List α)) : List α :=
  List.zipWith (fun r e => siteLik t.p r e) post (t.e0 :: t.es)

/-- `if (!backLikelihoodUpToDate_) computeBackward_();` -/
def RescObj.refreshBack (o : RescObj α) : RescObj α :=
  if o.backUpToDate then o
  else { o with back := rescBackward o.tab.p o.tab.es o.fw.scales o.bps, backUpToDate := true }

def RescObj.step (o : RescObj α) : Op α → RescObj α × Ans α
  | .setTables t =>
    -- fireParameterChanged (RescaledHmmLikelihood.cpp:73): the sub-objects already hold the new values
    let o1 := { o with tab := t, dVar := "", d2Var := "" }
    match rescCompute t o.bps with
    | none => (o1, .exc)
    | some fw => ({ o1 with fw := fw, backUpToDate := false }, .val fw.logLik)
  | .setBreaks bps =>
    -- setBreakPoints (RescaledHmmLikelihood.h:176): an invalid vector is refused before anything is changed
    if !(breaksOk o.tab.T bps) then (o, .exc) else
    let o1 := { o with bps := bps, dVar := "", d2Var := "" }
    match rescCompute o.tab bps with
    | none => (o1, .exc)
    | some fw => ({ o1 with fw := fw, backUpToDate := false }, .val fw.logLik)
  | .logLik => (o, .val o.fw.logLik)
  | .posterior =>
    -- getHiddenStatesPosteriorProbabilities (RescaledHmmLikelihood.cpp:352)
    let o1 := if o.backUpToDate then o
      else { o with back := rescBackward o.tab.p o.tab.es o.fw.scales o.bps, backUpToDate := true }
    (o1, .mat (posteriorOf o1.fw.lik o1.back))
  | .posteriorInto buf append =>
    -- :354-359 `offset = append ? probs.size() : 0; probs.resize(offset + nbSites_)`, every row
    -- `offset + i` is resized to `nbStates_` and then written completely (:364-371): without `append`
    -- nothing of `buf` survives, with `append` all of it does
    let o1 := o.refreshBack
    (o1, .mat ((if append then buf else []) ++ posteriorOf o1.fw.lik o1.back))
  | .posteriorSite site =>
    -- getHiddenStatesPosteriorProbabilitiesForASite (:336-349): `likelihood_[site * n + j] * backLikelihood_[site][j]`,
    -- i.e. row `site` of the product above; no range check
    let o1 := o.refreshBack
    (o1, match (posteriorOf o1.fw.lik o1.back)[site]? with | some r => .mat [r] | none => .ub)
  | .siteLik site =>
    -- getLikelihoodForASite (:304-314)
    let o1 := o.refreshBack
    (o1, match (posteriorOf o1.fw.lik o1.back)[site]?, o.tab.emisAt site with
      | some r, some e => .val (siteLik o.tab.p r e)
      | _, _ => .ub)
  | .siteLiks =>
    -- getLikelihoodForEachSite (:316-332)
    let o1 := o.refreshBack
    (o1, .mat [siteLiksOf o.tab (posteriorOf o1.fw.lik o1.back)])
  | .d1 var =>
    -- AbstractHmmLikelihood::getFirstOrderDerivative (HmmLikelihood.cpp:33)
    if var != o.dVar then
      let de := o.tab.dE var
      let d := rescDForward o.tab.p o.tab.e0 o.tab.es de.1 de.2 o.bps o.fw
      ({ o with dVar := var, dfw := d }, .val (-d.dLogLik))
    else (o, .val (-o.dfw.dLogLik))
  | .d2 var =>
    -- AbstractHmmLikelihood::getSecondOrderDerivative (HmmLikelihood.cpp:45); computeD2Forward_ first
    -- calls getFirstOrderDerivative(d2Variable_)
    if var != o.d2Var then
      let o1 := if var != o.dVar then
          let de := o.tab.dE var
          { o with dVar := var, dfw := rescDForward o.tab.p o.tab.e0 o.tab.es de.1 de.2 o.bps o.fw }
        else o
      let de := o.tab.dE var
      let d2e := o.tab.d2E var
      let d2 := rescD2Forward o.tab.p o.tab.e0 o.tab.es de.1 de.2 d2e.1 d2e.2 o.bps o1.fw o1.dfw
      ({ o1 with d2Var := var, d2fw := d2 }, .val (-d2.d2LogLik))
    else (o, .val (-o.d2fw.d2LogLik))
  | .dSite site =>
    -- getDLogLikelihoodForASite (RescaledHmmLikelihood.cpp:484-487): `dScales_[site] / scales_[site]`, whatever
    -- `dScales_` holds (it is empty before the first derivative, and not recomputed by an update)
    (o, match o.dfw.dScales[site]?, o.fw.scales[site]? with
      | some ds, some c => .val (ds / c)
      | _, _ => .ub)
  | .d2Site site =>
    -- getD2LogLikelihoodForASite (:612-615): `d2Scales_[site] / scales_[site] - pow(dScales_[site] / scales_[site], 2)`
    (o, match o.d2fw.d2Scales[site]?, o.dfw.dScales[site]?, o.fw.scales[site]? with
      | some d2s, some ds, some c => .val (d2s / c - (ds / c) * (ds / c))
      | _, _, _ => .ub)

/-- what a fresh object built from the current tables (with the break points set) answers.  The two
per-site derivative accessors have no variable argument: they refer to the variable `dv` of the last
first-order computation and `d2v` of the last second-order computation since the last update ("" = none:
the C++ then answers from arrays that are empty or belong to other parameter values — such queries are
excluded by `derivNamesOk`). -/
def rescSpec (t : Tables α) (bps : List Nat) (dv d2v : String) : Op α → Ans α
  | .setTables _ | .setBreaks _ | .logLik => .val (rescForward t.p t.e0 (mkSites t.es bps)).logLik
  | .posterior => .mat (rescPosterior t.p t.e0 t.es bps)
  | .posteriorInto buf append => .mat ((if append then buf else []) ++ rescPosterior t.p t.e0 t.es bps)
  | .posteriorSite site => match (rescPosterior t.p t.e0 t.es bps)[site]? with | some r => .mat [r] | none => .ub
  | .siteLik site =>
    match (rescPosterior t.p t.e0 t.es bps)[site]?, t.emisAt site with
    | some r, some e => .val (siteLik t.p r e)
    | _, _ => .ub
  | .siteLiks => .mat [siteLiksOf t (rescPosterior t.p t.e0 t.es bps)]
  | .d1 var =>
    let de := t.dE var
    .val (-(rescDForward t.p t.e0 t.es de.1 de.2 bps (rescForward t.p t.e0 (mkSites t.es bps))).dLogLik)
  | .d2 var =>
    let de := t.dE var
    let d2e := t.d2E var
    let fw := rescForward t.p t.e0 (mkSites t.es bps)
    .val (-(rescD2Forward t.p t.e0 t.es de.1 de.2 d2e.1 d2e.2 bps fw (rescDForward t.p t.e0 t.es de.1 de.2 bps fw)).d2LogLik)
  | .dSite site =>
    let fw := rescForward t.p t.e0 (mkSites t.es bps)
    let de := t.dE dv
    match (rescDForward t.p t.e0 t.es de.1 de.2 bps fw).dScales[site]?, fw.scales[site]? with
    | some ds, some c => .val (ds / c)
    | _, _ => .ub
  | .d2Site site =>
    let fw := rescForward t.p t.e0 (mkSites t.es bps)
    let de := t.dE dv
    let de2 := t.dE d2v
    let d2e := t.d2E d2v
    match (rescD2Forward t.p t.e0 t.es de2.1 de2.2 d2e.1 d2e.2 bps fw (rescDForward t.p t.e0 t.es de2.1 de2.2 bps fw)).d2Scales[site]?,
          (rescDForward t.p t.e0 t.es de.1 de.2 bps fw).dScales[site]?, fw.scales[site]? with
    | some d2s, some ds, some c => .val (d2s / c - (ds / c) * (ds / c))
    | _, _, _ => .ub

/-! ### LogsumHmmLikelihood -/

def ansOfSite : Option (Option α) → Ans α
  | some (some x) => .val x
  | some none => .exc
  | none => .ub

structure LogObj (α : Type) where
  tab : Tables α
  bps : List Nat
  fw : LogFwd α
  back : List (List α)
  backUpToDate : Bool
  dVar : String
  dfw : LogDFwd α
  d2Var : String
  d2fw : LogD2Fwd α

def emptyLD : LogDFwd α := { dLog := [], partials := [], dLogLik := zero }
def emptyLD2 : LogD2Fwd α := { d2Log := [], partials := [], d2LogLik := zero }

def logCompute (t : Tables α) (bps : List Nat) : LogFwd α := logForward t.p t.e0 (mkSites t.es bps)

def LogObj.build (t : Tables α) : LogObj α :=
  { tab := t, bps := [], fw := logCompute t [], back := [], backUpToDate := false,
    dVar := "", dfw := emptyLD, d2Var := "", d2fw := emptyLD2 }

/-- all rows of `getHiddenStatesPosteriorProbabilities`; `none` = `logLikIt` runs past the end -/
def logPosteriorOf (fw : LogFwd α) (back : List (List α)) (bps : List Nat) : Option (List (List α)) :=
  let T := fw.logLik.length
  let idx := logPostIdx T T 0 bps 0
  (List.zip (List.zip fw.logLik back) idx).mapM (fun x => logPostRow x.1.1 x.1.2 fw.partials[x.2]?)

def logPosterior (t : Tables α) (bps : List Nat) : Option (List (List α)) :=
  logPosteriorOf (logCompute t bps) (logBackward t.p t.es bps) bps

/-- `getHiddenStatesPosteriorProbabilitiesForASite(site)` (:312-336): its own walk over the break
points (`logPostIdx1`); `none` = `site` is not a position or `logLikIt` is past the end -/
def logPosteriorSiteOf (fw : LogFwd α) (back : List (List α)) (bps : List Nat) (site : Nat) : Option (List α) :=
  match fw.logLik[site]?, back[site]? with
  | some f, some b => logPostRow f b fw.partials[logPostIdx1 site bps]?
  | _, _ => none

def logPosteriorSite (t : Tables α) (bps : List Nat) (site : Nat) : Option (List α) :=
  logPosteriorSiteOf (logCompute t bps) (logBackward t.p t.es bps) bps site

/-- `if (!backLogLikelihoodUpToDate_) computeBackward_();` -/
def LogObj.refreshBack (o : LogObj α) : LogObj α :=
  if o.backUpToDate then o
  else { o with back := logBackward o.tab.p o.tab.es o.bps, backUpToDate := true }

/-- `getFirstOrderDerivative(var)` (HmmLikelihood.cpp:33) with `computeDForward_`; `none` = the computation throws:
the cached name is then forgotten (as repaired; the arrays may be partly rewritten, nothing refers to them) -/
def LogObj.firstOrder [HasIsInf α] (o : LogObj α) (var : String) : LogObj α × Option α :=
  if var != o.dVar then
    let de := o.tab.dE var
    match logDForward o.tab.p o.tab.e0 o.tab.es de.1 de.2 o.bps o.fw with
    | some d => ({ o with dVar := var, dfw := d }, some (-d.dLogLik))
    | none => ({ o with dVar := "" }, none)
  else (o, some (-o.dfw.dLogLik))

def LogObj.step [HasIsInf α] (o : LogObj α) : Op α → LogObj α × Ans α
  | .setTables t =>
    -- fireParameterChanged (LogsumHmmLikelihood.cpp:71)
    let fw := logCompute t o.bps
    ({ o with tab := t, backUpToDate := false, fw := fw, dVar := "", d2Var := "" }, .val fw.ll)
  | .setBreaks bps =>
    -- setBreakPoints (LogsumHmmLikelihood.h:176)
    if !(breaksOk o.tab.T bps) then (o, .exc) else
    let fw := logCompute o.tab bps
    ({ o with bps := bps, fw := fw, backUpToDate := false, dVar := "", d2Var := "" }, .val fw.ll)
  | .logLik => (o, .val o.fw.ll)
  | .posterior =>
    let o1 := if o.backUpToDate then o
      else { o with back := logBackward o.tab.p o.tab.es o.bps, backUpToDate := true }
    (o1, match logPosteriorOf o1.fw o1.back o1.bps with | some m => .mat m | none => .ub)
  | .posteriorInto buf append =>
    -- LogsumHmmLikelihood.cpp:338-374, same treatment of `probs` as the rescaled class
    let o1 := o.refreshBack
    (o1, match logPosteriorOf o1.fw o1.back o1.bps with
      | some m => .mat ((if append then buf else []) ++ m) | none => .ub)
  | .posteriorSite site =>
    let o1 := o.refreshBack
    (o1, match logPosteriorSiteOf o1.fw o1.back o1.bps site with | some r => .mat [r] | none => .ub)
  | .siteLik site =>
    -- getLikelihoodForASite (:279-289)
    let o1 := o.refreshBack
    (o1, match logPosteriorSiteOf o1.fw o1.back o1.bps site, o.tab.emisAt site with
      | some r, some e => .val (siteLik o.tab.p r e)
      | _, _ => .ub)
  | .siteLiks =>
    -- getLikelihoodForEachSite (:291-307)
    let o1 := o.refreshBack
    (o1, match logPosteriorOf o1.fw o1.back o1.bps with
      | some m => .mat [siteLiksOf o.tab m] | none => .ub)
  | .d1 var =>
    let r := o.firstOrder var
    (r.1, match r.2 with | some x => .val x | none => .exc)
  | .d2 var =>
    -- getSecondOrderDerivative (HmmLikelihood.cpp:45); computeD2Forward_ first calls getFirstOrderDerivative(d2Variable_)
    if var != o.d2Var then
      let r := ({ o with d2Var := var }).firstOrder var
      match r.2 with
      | none => ({ r.1 with d2Var := "" }, .exc)
      | some _ =>
        let o1 := r.1
        let de := o.tab.dE var
        let d2e := o.tab.d2E var
        match logD2Forward o.tab.p o.tab.e0 o.tab.es de.1 de.2 d2e.1 d2e.2 o.bps o1.fw o1.dfw with
        | some d2 => ({ o1 with d2fw := d2 }, .val (-d2.d2LogLik))
        | none => ({ o1 with d2Var := "" }, .exc)
    else (o, .val (-o.d2fw.d2LogLik))
  | .dSite site => (o, ansOfSite (logDSiteOf o.fw o.dfw.dLog o.bps site))
  | .d2Site site => (o, ansOfSite (logD2SiteOf o.fw o.dfw.dLog o.d2fw.d2Log o.bps site))

def logSpec [HasIsInf α] (t : Tables α) (bps : List Nat) (dv d2v : String) : Op α → Ans α
  | .setTables _ | .setBreaks _ | .logLik => .val (logCompute t bps).ll
  | .posterior => match logPosterior t bps with | some m => .mat m | none => .ub
  | .posteriorInto buf append =>
    match logPosterior t bps with | some m => .mat ((if append then buf else []) ++ m) | none => .ub
  | .posteriorSite site => match logPosteriorSite t bps site with | some r => .mat [r] | none => .ub
  | .siteLik site =>
    match logPosteriorSite t bps site, t.emisAt site with
    | some r, some e => .val (siteLik t.p r e)
    | _, _ => .ub
  | .siteLiks => match logPosterior t bps with | some m => .mat [siteLiksOf t m] | none => .ub
  | .d1 var =>
    let de := t.dE var
    match logDForward t.p t.e0 t.es de.1 de.2 bps (logCompute t bps) with
    | some d => .val (-d.dLogLik) | none => .exc
  | .d2 var =>
    let de := t.dE var
    let d2e := t.d2E var
    match logDForward t.p t.e0 t.es de.1 de.2 bps (logCompute t bps) with
    | none => .exc
    | some d =>
      match logD2Forward t.p t.e0 t.es de.1 de.2 d2e.1 d2e.2 bps (logCompute t bps) d with
      | some d2 => .val (-d2.d2LogLik) | none => .exc
  | .dSite site =>
    let de := t.dE dv
    match logDForward t.p t.e0 t.es de.1 de.2 bps (logCompute t bps) with
    | none => .exc
    | some d => ansOfSite (logDSiteOf (logCompute t bps) d.dLog bps site)
  | .d2Site site =>
    -- first-order rows of `dv`, second-order rows of `d2v` (the same variable right after a second-order query)
    let de1 := t.dE dv
    let de := t.dE d2v
    let d2e := t.d2E d2v
    match logDForward t.p t.e0 t.es de1.1 de1.2 bps (logCompute t bps), logDForward t.p t.e0 t.es de.1 de.2 bps (logCompute t bps) with
    | some d1, some d =>
      match logD2Forward t.p t.e0 t.es de.1 de.2 d2e.1 d2e.2 bps (logCompute t bps) d with
      | none => .exc
      | some d2 => ansOfSite (logD2SiteOf (logCompute t bps) d1.dLog d2.d2Log bps site)
    | _, _ => .exc

/-! ### LowMemoryRescaledHmmLikelihood (no posteriors, no derivatives) -/

structure LowObj (α : Type) where
  tab : Tables α
  bps : List Nat
  maxSize : Nat
  logLik : α
  dVar : String
  d2Var : String

def lowCompute (t : Tables α) (maxSize : Nat) (bps : List Nat) : α :=
  lowForward t.p maxSize t.e0 (mkSites t.es bps)

/-- `none` = the constructor throws (`maxSize = 0`) -/
def LowObj.build (t : Tables α) (maxSize : Nat) : Option (LowObj α) :=
  if maxSize == 0 then none
  else some { tab := t, bps := [], maxSize := maxSize, logLik := lowCompute t maxSize [], dVar := "", d2Var := "" }

def LowObj.step (o : LowObj α) : Op α → LowObj α × Ans α
  | .setTables t => let ll := lowCompute t o.maxSize o.bps; ({ o with tab := t, logLik := ll }, .val ll)
  | .setBreaks bps =>
    if !(breaksOk o.tab.T bps) then (o, .exc) else
    let ll := lowCompute o.tab o.maxSize bps; ({ o with bps := bps, logLik := ll }, .val ll)
  | .logLik => (o, .val o.logLik)
  | .posterior | .posteriorInto _ _ | .posteriorSite _ | .siteLik _ | .siteLiks => (o, .exc)   -- NotImplementedException
  -- computeD(2)Likelihood_ throw NotImplementedException; the name is not kept (as repaired: it was, and a second
  -- call with the same name answered -dLogLik_ = -0)
  | .d1 _ | .d2 _ => (o, .exc)
  | .dSite _ | .d2Site _ => (o, .exc)   -- NotImplementedException

/-- what a fresh object answers -/
def lowSpec (t : Tables α) (maxSize : Nat) (bps : List Nat) : Op α → Ans α
  | .posterior | .posteriorInto _ _ | .posteriorSite _ | .siteLik _ | .siteLiks | .d1 _ | .d2 _ | .dSite _ | .d2Site _ => .exc
  | _ => .val (lowCompute t maxSize bps)

/-! ## AutoCorrelationTransitionMatrix (AutoCorrelationTransitionMatrix.cpp), as repaired
(the equilibrium vector is the stationary distribution, proportional to 1/(1-λ_i)) -/

/-- `Pij(i, j)` (AutoCorrelationTransitionMatrix.h:48-54) and the entries written by `getPij()` (which calls
it), from `li = vAutocorrel_[i]`; as repaired: a single state stays in place with probability 1 -/
def autoEntry (n : Nat) (li : α) (i j : Nat) : α :=
  if n == 1 then one
  else if i == j then li else (one - li) / ofInt ((n : Int) - 1)

/-- the loop of `fireParameterChanged`: `eqFreq_[i] = 1/(1-λ_i); sum += eqFreq_[i]`, then `eqFreq_[i] /= sum` -/
def autoEq (lam : List α) : List α :=
  let w := lam.map (fun l => one / (one - l))
  let s := sumL w
  w.map (fun x => x / s)

structure AutoTM (α : Type) where
  n : Nat
  lam : List α                 -- vAutocorrel_
  eq : List α                  -- eqFreq_
  pij : List (List α)          -- pij_ (cached)
  upToDate : Bool

def autoMatrix (n : Nat) (lam : List α) : List (List α) :=
  lam.mapIdx (fun i li => (List.range n).map (fun j => autoEntry n li i j))

/-- the constructor: all λ = 0.95, uniform equilibrium frequencies, matrix not computed -/
def AutoTM.build (n : Nat) : AutoTM α :=
  { n := n, lam := List.replicate n (ofRat 95 100), eq := List.replicate n (one / ofInt n),
    pij := [], upToDate := false }

/-- `setParameterValue("lambda<k+1>", v)` once the constraint ]0,1[ has accepted `v`, then `fireParameterChanged` -/
def AutoTM.setLambda (m : AutoTM α) (k : Nat) (v : α) : AutoTM α :=
  let lam := m.lam.set k v
  { m with lam := lam, eq := autoEq lam, upToDate := false }

/-- `getPij()`: lazily recomputed -/
def AutoTM.getPij (m : AutoTM α) : AutoTM α × List (List α) :=
  if m.upToDate then (m, m.pij)
  else let p := autoMatrix m.n m.lam; ({ m with pij := p, upToDate := true }, p)

/-! ## Specification: sum over all hidden paths -/

/-- all sequences of `T` hidden states -/
def allPaths (n : Nat) : Nat → List (List Nat)
  | 0 => [[]]
  | T + 1 => (List.range n).flatMap (fun y => (allPaths n T).map (fun ys => y :: ys))

/-- probability that a (re)started chain is in state `y`: one transition from the equilibrium
frequencies, `Σ_k pi k · P k y` (equal to `pi y` when `pi` is stationary) -/
def initW (p : Params α) (y : Nat) : α := dot (col p y) (piL p)

/-- weight of the hidden path `ys` through `sites`, coming from state `prev` -/
def pathW (p : Params α) : Nat → List (Site α) → List Nat → α
  | _, [], _ => one
  | _, _ :: _, [] => zero
  | prev, (b, e) :: rest, y :: ys => (if b then initW p y else p.P prev y) * e y * pathW p y rest ys

/-- Σ over all hidden paths of π·Π transitions·Π emissions, restarted at the flagged sites -/
def pathSum (p : Params α) (e0 : Emis α) (sites : List (Site α)) : α :=
  sumL ((allPaths p.n (sites.length + 1)).map (pathW p 0 ((true, e0) :: sites)))

/-- Σ over the hidden paths through `sites` (coming from `prev`) that are in state `j` at position `i` -/
def margW (p : Params α) (prev : Nat) (sites : List (Site α)) (i j : Nat) : α :=
  sumL (((allPaths p.n sites.length).filter (fun ys => ys[i]? == some j)).map (pathW p prev sites))

/-- numerator of the posterior marginal of state `j` at position `i` -/
def pathMarginal (p : Params α) (e0 : Emis α) (sites : List (Site α)) (i j : Nat) : α :=
  margW p 0 ((true, e0) :: sites) i j

/-- the unscaled forward recursion with restarts: `acc` = product of the totals of the finished
segments, `prev` = forward vector of the current segment -/
def fwdULoop (p : Params α) : List (Site α) → α → List α → α
  | [], acc, prev => acc * sumL prev
  | (b, e) :: rest, acc, prev =>
    if b then fwdULoop p rest (acc * sumL prev) (restartTmp p e)
    else fwdULoop p rest acc (vec p.n (fun j => e j * dot (col p j) prev))

def fwdU (p : Params α) (e0 : Emis α) (sites : List (Site α)) : α :=
  fwdULoop p sites one (restartTmp p e0)

end Bpp.Hmm
