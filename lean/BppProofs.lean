import BppProofs.Lemmas.Range
import BppProofs.Lemmas.ScalarReal
import BppProofs.Props.C20
