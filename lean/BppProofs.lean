import BppProofs.Lemmas.LU
import BppProofs.Lemmas.Range
import BppProofs.Lemmas.ScalarReal
import BppProofs.Props.C05
import BppProofs.Props.C20
import BppProofs.Props.C20Measure
