import BppProofs.Lemmas.Range
import BppProofs.Props.C20
